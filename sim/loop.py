"""Deterministic asyncio event loop: virtual time, one ready handle per step chosen by the tape."""

from __future__ import annotations

import asyncio
import heapq
from asyncio import events


class SimLoopDeadlock(RuntimeError):
    pass


class SimLoop(asyncio.BaseEventLoop):
    def __init__(self, tape, start_time: float = 0.0, fifo_permille: int = 0):
        super().__init__()
        self._tape = tape
        self._vtime = float(start_time)
        self._fifo_permille = fifo_permille
        self.steps = 0
        self.choices = 0
        self.max_ready = 0
        self.on_step = None

    # ---- clock
    def time(self):
        return self._vtime

    def advance(self, dt: float):
        self._vtime += dt

    # ---- the scheduler
    def _run_once(self):
        sched = self._scheduled
        while sched and sched[0]._cancelled:
            h = heapq.heappop(sched)
            h._scheduled = False
        if not self._ready and sched:
            # nothing runnable: jump the clock to the next timer
            self._vtime = max(self._vtime, sched[0]._when)
        while sched and sched[0]._when <= self._vtime:
            h = heapq.heappop(sched)
            h._scheduled = False
            if not h._cancelled:
                self._ready.append(h)
        # drop cancelled ready handles
        live = [h for h in self._ready if not h._cancelled]
        self._ready.clear()
        if not live:
            if not sched and not self._stopping:
                raise SimLoopDeadlock("no runnable handle and no timer")
            return
        self.max_ready = max(self.max_ready, len(live))
        if len(live) > 1:
            self.choices += 1
            i = self._tape.choose(len(live), "loop.pick")
        else:
            i = 0
        h = live.pop(i)
        self._ready.extend(live)
        self.steps += 1
        if self.on_step is not None:
            self.on_step(self, h)
        h._run()
        h = None

    # ---- no real I/O
    def _process_events(self, event_list):
        pass

    def _write_to_self(self):
        pass

    def run_in_executor(self, executor, func, *args):
        fut = self.create_future()

        def run():
            if fut.cancelled():
                return
            try:
                fut.set_result(func(*args))
            except BaseException as e:  # noqa: BLE001
                fut.set_exception(e)

        self.call_soon(run)
        return fut

    def call_soon_threadsafe(self, callback, *args, context=None):
        return self.call_soon(callback, *args, context=context)


def run(tape, main_coro_factory, start_time: float = 0.0):
    """Run ``await main_coro_factory(loop)`` to completion under a fresh SimLoop; returns (result, loop)."""
    loop = SimLoop(tape, start_time)
    old = None
    try:
        try:
            old = events.get_event_loop_policy().get_event_loop() if False else None
        except Exception:
            old = None
        asyncio.set_event_loop(loop)
        res = loop.run_until_complete(main_coro_factory(loop))
        return res, loop
    finally:
        try:
            loop.run_until_complete(loop.shutdown_asyncgens())
        except Exception:
            pass
        asyncio.set_event_loop(None)
        loop.close()
