"""Fresh-interpreter worker for the C06 configuration grid.

Started by sim.c06 with an explicit environment (PYTHONHASHSEED, LANG/LC_ALL, TZ), cwd and umask.
Reads one JSON job from stdin, executes the calls sequentially, prints one JSON line:
  RESULT {"results": {id: serialised}, "env": {...}}
"""

from __future__ import annotations

import json
import os
import sys


def main():
    here = os.path.dirname(os.path.dirname(os.path.abspath(__file__)))
    if here not in sys.path:
        sys.path.insert(0, here)
    job = json.load(sys.stdin)
    fake = os.environ.get("VERIF_FAKE_HOST")
    if fake:
        import platform
        import socket

        socket.gethostname = lambda: fake
        socket.getfqdn = lambda name="": fake
        platform.node = lambda: fake
        real_uname = os.uname

        def uname():
            u = real_uname()
            return os.uname_result((u.sysname, fake, u.release, u.version, u.machine))

        os.uname = uname
    from sim import c06_calls
    from sim.common import assert_repo_code

    assert_repo_code()
    c06_calls.import_everything()
    clock = job.get("clock") or {"epoch": 1_700_000_000.0}
    c06_calls.install_clock(c06_calls.SimClock(clock["epoch"], clock.get("jumps")))
    if job.get("umask") is not None:
        os.umask(job["umask"])
    results = {}
    for c in job["history"]:
        c06_calls.exec_call_sync(c, job["sandbox"])
    for c in job["calls"]:
        results[str(c["id"])] = c06_calls.exec_call_sync(c, job["sandbox"])
    import locale

    env = {"hashseed": os.environ.get("PYTHONHASHSEED"), "cwd": os.getcwd(), "locale": locale.getencoding(),
           "flags_utf8": sys.flags.utf8_mode, "clock_reads": c06_calls._clock.reads}
    sys.stdout.write("RESULT " + json.dumps({"results": results, "env": env}) + "\n")
    sys.stdout.flush()


if __name__ == "__main__":
    main()
