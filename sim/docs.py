"""Documents used by the simulated workloads: the repository's own .oct.md corpus
and a small tape-driven generator.  Content correctness is *not* what the
simulation decides (that is C01-C05 territory); the workloads only need a supply
of documents that the write path accepts, rejects, repairs, and that differ
from one another (every generated document carries a unique marker so each
observed file content is attributable to exactly one write)."""

from __future__ import annotations

import glob
import os

from .tape import Tape

REPO = os.environ.get("VERIF_REPO", "/repo")

_corpus = None


def corpus() -> list[tuple[str, str]]:
    """[(relative name, text)] of repository documents that strict-parse and re-emit, sorted by name."""
    global _corpus
    if _corpus is not None:
        return _corpus
    from octave_mcp.core.emitter import emit
    from octave_mcp.core.parser import parse

    out = []
    pats = ["src/octave_mcp/resources/**/*.oct.md", "examples/**/*.oct.md", "tests/fixtures/**/*.oct.md",
            "docs/**/*.oct.md", "*.oct.md"]
    seen = set()
    for pat in pats:
        for p in sorted(glob.glob(os.path.join(REPO, pat), recursive=True)):
            if p in seen:
                continue
            seen.add(p)
            try:
                with open(p, encoding="utf-8") as f:
                    text = f.read()
                if len(text) > 40_000 or "\r" in text:
                    continue
                emit(parse(text))
            except Exception:
                continue
            out.append((os.path.relpath(p, REPO), text))
    _corpus = out
    return out


ATOMS = ["alpha", "beta", "GAMMA", "delta_4", "x", "y9", "Zed"]
STRS = ['"two words"', '"1.0"', '"a, b"', '"tr\\"icky"', '"émigré ☃"', '"semi;colon"']
# includes the values Python considers EQUAL across types (True == 1 == 1.0, False == 0 == 0.0 == -0.0): a value-keyed
# cache or dict confuses them, and only a history that contained the other spelling first shows it
NUMS = ["0", "1", "42", "-7", "3.5", "1e3", "1.0", "0.0", "-0.0", "1e0", "true", "false", "2", "2.0",
        # outside CPython's small-integer cache (-5..256): `is` stops working where `==` is meant
        "256", "257", "-6", "1000", "123456789012345678901234567890"]


def gen_doc(tape: Tape, marker: str, style: str = "canonical", size: int = 0) -> str:
    """A small OCTAVE document.  style: canonical | lenient | frontmatter | noenvelope."""
    name = tape.pick(["DOC", "NOTE", "SPEC_A", "LOG"], "doc.name")
    lines = []
    if style == "frontmatter":
        lines += ["---", f"name: skill-{marker}", "description: generated", "---", ""]
    if style != "noenvelope":
        lines.append(f"==={name}===")
    lines += ["META:", "  TYPE::TEST", '  VERSION::"1.0"']
    if tape.choose(2, "doc.status"):
        # full names, and abbreviations that are a proper prefix of one or of SEVERAL members of META's STATUS enum
        lines.append("  STATUS::" + tape.pick(["DRAFT", "ACTIVE", "DEPRECATED", "D", "DE", "A", "draft", "DR"], "doc.st"))
    lines.append(f"MARK::{marker}")
    nf = 1 + tape.choose(5, "doc.nf")
    for i in range(nf):
        k = f"K{i}"
        kind = tape.choose(6, "doc.kind")
        if kind == 0:
            lines.append(f"{k}::" + tape.pick(ATOMS, "doc.atom"))
        elif kind == 1:
            lines.append(f"{k}::" + tape.pick(NUMS, "doc.num"))
        elif kind == 2:
            lines.append(f"{k}::" + tape.pick(STRS, "doc.str"))
        elif kind == 3:
            items = [tape.pick(ATOMS + NUMS, "doc.li") for _ in range(1 + tape.choose(3, "doc.ln"))]
            lines.append(f"{k}::[" + ",".join(items) + "]")
        elif kind == 4:
            lines.append(f"{k}:")
            lines.append("  IN1::" + tape.pick(ATOMS, "doc.atom"))
            lines.append("  IN2::" + tape.pick(["true", "false", "null"], "doc.b"))
        else:
            if style == "lenient":
                lines.append(f"{k}::" + tape.pick(ATOMS, "a") + " -> " + tape.pick(ATOMS, "b"))
            else:
                lines.append(f"{k}::" + tape.pick(ATOMS, "a") + "→" + tape.pick(ATOMS, "b"))
    if style == "lenient":
        lines.append("LEN::p + q")
    if style == "holo_repairable":
        # a block the file-based TEST_HOLOGRAPHIC schema applies to, with values its lenient repair rewrites (enum casefold)
        lines += ["TEST_HOLOGRAPHIC:", "  NAME::thing_" + marker, "  STATUS::" + tape.pick(["active", "draft", "Deprecated"], "doc.hs"),
                  "  OPTIONAL_FIELD::x"]
    if style == "sectioned":
        # several NAMED and numbered section markers (a rewrite that drops them produces a 'sections removed' warning list)
        named = tape.shuffle(["CONTEXT", "RULES", "GLOSSARY", "DEFINITIONS", "ALPHA", "ZETA", "NOTES", "LIMITS"], "doc.sec")[: 3 + tape.choose(5, "doc.nsec")]
        for i, nm in enumerate(named):
            lines += [f"§{nm}::S{i}", f"  V{i}::{i}"]
        for n in ("1", "2", "10"):
            lines += [f"§{n}::N{n}", f"  W{n}::{n}"]
    if style == "unicode":
        lines.append('Ключ::"значение ☃ é 𝔘"')
        lines.append("ÅB::naïve")
    if style == "oddchars":
        # characters that text layers like to translate: a lone carriage return, LINE SEPARATOR, NEL, NUL, a byte-order mark and
        # form feed / separators inside values, and CRLF inside a literal zone -- the bytes installed must be exactly the text reported
        lines += ['CR::"a\rb"', 'LS::"a\u2028b\u2029c"', 'NEL::"a\x85b"', 'NUL::"a\x00b"', 'BOM::"a\ufeffb"', 'FS::"a\x0cb\x1cc\x1dd\x1e"',
                  "LIT:", "```", "line1\r", "line2\rline3", "```"]
    if style == "longline":
        lines.append('LONG::"' + "x" * 20000 + '"')
    if style == "trail":
        lines = [ln + "   " if i % 2 else ln for i, ln in enumerate(lines)]
    for j in range(size):
        if style == "mbpad":
            # multi-byte characters everywhere (2-, 3- and 4-byte sequences, shifted by one byte from line to line): whatever size a
            # writer slices its output into, some slice boundary falls inside a character
            lines.append(f"PAD{j}::\"{marker}-{'x' * (j % 4)}{'é☃𝔘ß' * 18}-{j}\"")
        else:
            lines.append(f"PAD{j}::\"{marker}-{'x' * 80}-{j}\"")
    if style != "noenvelope":
        lines.append("===END===")
    if style == "nonl":
        return "\n".join(lines)
    return "\n".join(lines) + "\n"


def exact_size_doc(marker: str, nbytes: int, multibyte: bool = False) -> str:
    """A canonical document whose UTF-8 encoding is EXACTLY ``nbytes`` long (thresholds: 4096, 8192, 65536 and their neighbours)."""
    head = f'===DOC===\nMETA:\n  TYPE::TEST\n  VERSION::"1.0"\nMARK::{marker}\nLONG::"'
    tail = '"\n===END===\n'
    room = nbytes - len(head.encode()) - len(tail.encode())
    if room < 0:
        raise ValueError("too small")
    if multibyte:
        body = "☃" * (room // 3) + "x" * (room % 3)
        body = "x" + body[:-1] if room % 3 == 0 and room else body  # shift so that 3-byte characters straddle power-of-two offsets
        pad = room - len(body.encode())
        body = body[: len(body) - 1] if pad < 0 else body + "x" * pad
        while len(body.encode()) > room:
            body = body[:-1]
        body += "x" * (room - len(body.encode()))
    else:
        body = ("xy " * (room // 3 + 1))[:room]  # a space inside keeps the value quoted in canonical form
        body = body[:-1] + "z" if body.endswith(" ") else body
    return head + body + tail


UNPARSEABLE = [
    '===DOC===\nMETA:\n  TYPE::"unterminated\nA::[1,2\n',
    "===DOC===\nA::1\n\tB::2\n===END===\n",
]


def canonical(text: str) -> str:
    from octave_mcp.core.emitter import emit
    from octave_mcp.core.parser import parse

    return emit(parse(text))
