"""Differential self-test of the storage seam's file-object API (``./check selftest fileapi``).

Every small program below is run twice on identical trees: once inside an actor thread (so ``open``, ``io.FileIO``,
``os.*``, ``tempfile``, ``pathlib`` ... go through the simulator: SimFile, interposed os functions) and once plainly
(CPython's own file objects).  Return values (incl. exception types) and the resulting trees must be identical.  The programs
use the calls that *behaviour-preserving refactors* of the write path might reach for; a difference here would surface in a
check either as a harness error or -- worse -- as a false alarm, so it is tested on its own, with no code of the repository
involved.
"""

from __future__ import annotations

import hashlib
import io
import os
import pathlib
import shutil
import sys
import tempfile

from . import fsmodel, seam
from .tape import Tape

DOC = "===DOC===\nA::1\nB::\"é ☃\"\nC::[1,2,3]\n===END===\n"
CRLF = b"l1\r\nl2\rl3\nl4"


def _tree(d):
    return [("d", "sub", 0o755), ("f", "a.txt", DOC.encode(), 0o640), ("f", "crlf.txt", CRLF, 0o644),
            ("f", "bin.dat", bytes(range(256)) * 40, 0o600), ("f", "ro.txt", b"read only\n", 0o444)]


def p_text_write(d):
    with open(os.path.join(d, "n.txt"), "w", encoding="utf-8") as f:
        r = [f.write(DOC), f.write(""), f.writable(), f.readable(), f.seekable(), f.isatty(), f.encoding.lower(), f.mode, f.closed]
        f.writelines(["x\n", "y\n"])
        f.flush()
        r.append(os.fstat(f.fileno()).st_size)
    return r + [f.closed]


def p_text_read(d):
    out = []
    with open(os.path.join(d, "a.txt"), encoding="utf-8") as f:
        out += [f.read(5), f.readline(), f.readline(3), f.read()]
        out.append(f.read())
    with open(os.path.join(d, "a.txt"), encoding="utf-8") as f:
        out.append(list(f))
    with open(os.path.join(d, "a.txt"), encoding="utf-8") as f:
        out.append(f.readlines())
    return out


def p_newlines(d):
    out = []
    for nl in (None, "", "\n", "\r\n", "\r"):
        with open(os.path.join(d, "crlf.txt"), encoding="utf-8", newline=nl) as f:
            out.append((nl, f.read(), f.newlines))
        with open(os.path.join(d, f"w{len(out)}.txt"), "w", encoding="utf-8", newline=nl) as f:
            f.write("a\nb\r\nc\n")
    return out


def p_binary(d):
    out = []
    with open(os.path.join(d, "bin.dat"), "rb") as f:
        out += [f.read(10), f.tell(), f.seek(100), f.read(4), f.tell(), f.seek(-5, 2), f.read(), f.read(3)]
        f.seek(0)
        buf = bytearray(300)
        out += [f.readinto(buf), bytes(buf[:8]), f.read1(16), len(f.peek(1)) > 0, f.tell()]
    with open(os.path.join(d, "o.bin"), "wb") as f:
        out += [f.write(b"abc"), f.write(memoryview(b"defg")), f.write(bytearray(b"hi")), f.tell()]
        f.seek(2)
        f.write(b"ZZ")
        f.truncate(7)
    with open(os.path.join(d, "o.bin"), "ab") as f:
        out.append(f.write(b"!tail"))
    with open(os.path.join(d, "o.bin"), "r+b") as f:
        out += [f.read(3), f.write(b"__"), f.seek(0), f.read()]
    return out


def p_raw(d):
    out = []
    with open(os.path.join(d, "raw.bin"), "wb", buffering=0) as f:
        out += [f.write(b"0123456789"), type(f).__name__ in ("FileIO", "SimFile"), f.tell()]
    with open(os.path.join(d, "raw.bin"), "rb", buffering=0) as f:
        b = bytearray(4)
        out += [f.read(3), f.readinto(b), bytes(b), f.readall(), f.read(5)]
    with io.FileIO(os.path.join(d, "fio.bin"), "w") as f:
        out += [f.write(b"via FileIO"), f.writable(), f.readable(), f.fileno() > 2, isinstance(f, io.FileIO)]
    with io.FileIO(os.path.join(d, "fio.bin")) as f:
        out += [f.read(), f.mode in ("rb", "r")]
    fd = os.open(os.path.join(d, "fio2.bin"), os.O_WRONLY | os.O_CREAT | os.O_EXCL, 0o600)
    with io.FileIO(fd, "w", closefd=True) as f:
        out.append(f.write(b"fd based"))
    return out


def p_layers(d):
    out = []
    raw = io.FileIO(os.path.join(d, "lay.txt"), "w")
    bufw = io.BufferedWriter(raw, buffer_size=16)
    txt = io.TextIOWrapper(bufw, encoding="utf-8", newline="\n", write_through=False)
    out += [txt.write(DOC * 3), txt.write("tail é\n")]
    txt.flush()
    out.append(os.fstat(txt.fileno()).st_size)
    txt.close()
    out += [raw.closed, bufw.closed]
    with io.TextIOWrapper(io.BufferedReader(io.FileIO(os.path.join(d, "lay.txt"))), encoding="utf-8") as t:
        out += [t.readline(), len(t.read())]
    with io.BufferedReader(io.FileIO(os.path.join(d, "bin.dat")), buffer_size=64) as b:
        out += [b.read(100)[-3:], b.peek(1)[:1], len(b.read())]
    return out


def p_layers_mixed(d):
    """Writes through two layers of ONE file without flushing in between: the outcome depends on the buffer sizes, so this is
    compared with CPython's sizes only (knob set 'default')."""
    out = []
    with open(os.path.join(d, "lay2.txt"), "w", encoding="utf-8") as f:
        f.write("head\n")
        out.append(f.buffer.write(b"raw bytes\n"))
        f.buffer.flush()
    with open(os.path.join(d, "lay2.txt"), encoding="utf-8") as f:
        out.append(f.buffer.read())
    with open(os.path.join(d, "lay3.bin"), "wb") as f:
        f.write(b"buffered;")
        out.append(f.raw.write(b"direct"))
    f = open(os.path.join(d, "lay4.txt"), "w", encoding="utf-8")
    f.write("before detach\n")
    b = f.detach()
    out.append(b.write(b"after detach\n"))
    b.close()
    for op in (f.close, lambda: f.write("x"), f.flush):
        try:
            op()
            out.append("no error")
        except ValueError as e:
            out.append(str(e))
    return out


def p_fdopen(d):
    out = []
    fd, name = tempfile.mkstemp(dir=d, suffix=".tmp")
    out.append(os.path.basename(name).startswith("tmp"))
    with os.fdopen(fd, "w", encoding="utf-8") as f:
        out.append(f.write(DOC))
        f.flush()
        os.fsync(f.fileno())
        os.fchmod(f.fileno(), 0o640)
    os.replace(name, os.path.join(d, "fd1.txt"))
    fd = os.open(os.path.join(d, "fd2.bin"), os.O_RDWR | os.O_CREAT, 0o600)
    with os.fdopen(fd, "w+b") as f:
        out += [f.write(b"abcdef"), f.seek(0), f.read(), f.truncate(3)]
    fd = os.open(os.path.join(d, "fd3.bin"), os.O_WRONLY | os.O_CREAT, 0o600)
    f = os.fdopen(fd, "wb", closefd=False)
    f.write(b"keep fd open")
    f.close()
    out.append(os.write(fd, b"; still open"))
    os.close(fd)
    with tempfile.NamedTemporaryFile("w", dir=d, suffix=".tmp", delete=False, encoding="utf-8") as t:
        out.append(t.write("ntf\n"))
        nm = t.name
    os.rename(nm, os.path.join(d, "ntf.txt"))
    return out


def p_pathlib(d):
    out = []
    p = pathlib.Path(d)
    out += [(p / "a.txt").read_text(encoding="utf-8")[:12], (p / "bin.dat").read_bytes()[:5], (p / "pw.txt").write_text("pw\n", encoding="utf-8"),
            (p / "pb.bin").write_bytes(b"pb")]
    (p / "t.touch").touch(exist_ok=False)
    try:
        (p / "t.touch").touch(exist_ok=False)
    except FileExistsError as e:
        out.append(type(e).__name__)
    with (p / "po.txt").open("x", encoding="utf-8") as f:
        f.write("x-mode\n")
    try:
        (p / "po.txt").open("x")
    except FileExistsError as e:
        out.append(type(e).__name__)
    (p / "po.txt").chmod(0o604)
    out += [oct((p / "po.txt").stat().st_mode & 0o7777), (p / "nope").exists(), (p / "sub").is_dir(), (p / "a.txt").is_symlink()]
    (p / "pw.txt").replace(p / "pw2.txt")
    (p / "pb.bin").rename(p / "pb2.bin")
    (p / "t.touch").unlink()
    (p / "t.touch").unlink(missing_ok=True)
    (p / "m1" / "m2").mkdir(parents=True, exist_ok=True)
    out.append(sorted(x.name for x in p.iterdir()))
    out.append(sorted(str(x.relative_to(p)) for x in p.glob("*.txt")))
    return out


def p_shutil_hash(d):
    out = []
    shutil.copymode(os.path.join(d, "ro.txt"), os.path.join(d, "a.txt"))
    shutil.copyfile(os.path.join(d, "bin.dat"), os.path.join(d, "copy.dat"))
    shutil.copystat(os.path.join(d, "a.txt"), os.path.join(d, "copy.dat"))
    out.append(oct(os.stat(os.path.join(d, "copy.dat")).st_mode & 0o7777))
    with open(os.path.join(d, "bin.dat"), "rb") as f:
        out.append(hashlib.file_digest(f, "sha256").hexdigest())
    with open(os.path.join(d, "bin.dat"), "rb", buffering=0) as f:
        out.append(hashlib.file_digest(f, "sha256").hexdigest())
    h = hashlib.sha256()
    with open(os.path.join(d, "bin.dat"), "rb") as f:
        for chunk in iter(lambda: f.read(1000), b""):
            h.update(chunk)
    out.append(h.hexdigest())
    return out


def p_errors(d):
    out = []

    def t(fn):
        try:
            fn()
            out.append("no error")
        except Exception as e:  # noqa: BLE001
            out.append((type(e).__name__, getattr(e, "errno", None)))

    t(lambda: open(os.path.join(d, "missing.txt")))
    t(lambda: open(os.path.join(d, "sub")))
    t(lambda: open(os.path.join(d, "sub"), "w"))
    t(lambda: open(os.path.join(d, "a.txt"), "x"))
    t(lambda: open(os.path.join(d, "a.txt"), "rw"))
    t(lambda: open(os.path.join(d, "a.txt"), "r", buffering=0))
    t(lambda: open(os.path.join(d, "a.txt"), "rb").write(b"x"))
    t(lambda: open(os.path.join(d, "e1.txt"), "w").read())
    t(lambda: open(os.path.join(d, "e2.txt"), "w").write(b"bytes"))
    t(lambda: open(os.path.join(d, "e3.bin"), "wb").write("str"))
    t(lambda: open(os.path.join(d, "bin.dat"), encoding="utf-8").read())
    t(lambda: open(os.path.join(d, "nodir", "x.txt"), "w"))
    t(lambda: io.FileIO(os.path.join(d, "missing.bin")))
    t(lambda: os.fdopen(987654, "w"))
    f = open(os.path.join(d, "a.txt"))
    f.close()
    t(f.read)
    t(lambda: f.fileno())
    return out


PROGRAMS = [p_text_write, p_text_read, p_newlines, p_binary, p_raw, p_layers, p_layers_mixed, p_fdopen, p_pathlib, p_shutil_hash, p_errors]


def _run_plain(fn, root):
    try:
        return ("ok", fn(root))
    except Exception as e:  # noqa: BLE001
        return ("exc", type(e).__name__, str(e).replace(root, "<R>")[:200])


def _run_sim(fn, root, knobs=None):
    sim = seam.Simulation(root, Tape(values=[]), knobs or seam.Knobs())
    box = {}

    def body():
        try:
            box["r"] = ("ok", fn(root))
        except Exception as e:  # noqa: BLE001
            box["r"] = ("exc", type(e).__name__, str(e).replace(root, "<R>")[:200])

    a = sim.add_actor("prog", body, faultable=False)
    sim.run()
    if a.exc is not None:
        return ("actor-exc", repr(a.exc)), sim
    return box.get("r"), sim


def _norm(x, root):
    if isinstance(x, str):
        return x.replace(root, "<R>")
    if isinstance(x, (list, tuple)):
        return type(x)(_norm(y, root) for y in x)
    return x


def main() -> int:
    seam.install()
    seam.install_audit()
    bad = 0
    knob_sets = [("default", seam.Knobs()), ("tiny-chunks", seam.Knobs(wchunk=7, userbuf=5, rchunk=61, step_cap=100000)), ("no-userbuf", seam.Knobs(userbuf=0))]
    for fn in PROGRAMS:
        r0 = fsmodel.fresh_root("api-plain")
        fsmodel.build_tree(r0, _tree(r0))
        old = os.umask(0o022)
        try:
            plain = _norm(_run_plain(fn, r0), r0)
        finally:
            os.umask(old)
        t0 = {k: v[:3] for k, v in fsmodel.snapshot(r0).items()}
        for kname, knobs in knob_sets:
            if fn is p_layers_mixed and kname != "default":
                continue
            r1 = fsmodel.fresh_root("api-sim")
            fsmodel.build_tree(r1, _tree(r1))
            old = os.umask(0o022)
            try:
                simr, sim = _run_sim(fn, r1, knobs)
            finally:
                os.umask(old)
            simr = _norm(simr, r1)
            t1 = {k: v[:3] for k, v in fsmodel.snapshot(r1).items()}
            d = fsmodel.diff(t0, t1)
            # temp names are deterministic under the simulator and random otherwise: the programs rename them away
            if simr != plain or d or sim.bypass:
                bad += 1
                print(f"fileapi {fn.__name__} [{kname}]: DIFFERENT")
                if simr != plain:
                    print("   plain:", str(plain)[:1500])
                    print("   sim  :", str(simr)[:1500])
                for x in d[:6]:
                    print("   tree (plain -> sim):", x)
                if sim.bypass:
                    print("   bypassed the seam:", sim.bypass[:4])
            else:
                print(f"fileapi {fn.__name__} [{kname}]: same ({len(sim.events)} operations seen by the seam)")
    fsmodel.cleanup_base()
    print(f"fileapi: {bad} of the program x knob-set comparisons differ")
    return 1 if bad else 0


if __name__ == "__main__":
    sys.exit(main())
