"""Batch runner: parallel execution of work units, aggregation, minimisation,
replay files (verified in a fresh interpreter), known findings, evidence."""

from __future__ import annotations

import concurrent.futures as cf
import faulthandler
import hashlib
import json
import multiprocessing
import os
import subprocess
import sys
import time
import traceback
from collections import Counter

VERIF = os.path.dirname(os.path.dirname(os.path.abspath(__file__)))
REPLAY_DIR = os.environ.get("VERIF_REPLAY_DIR") or os.path.join(VERIF, "replays")
# evidence describes /repo itself: a check that a self-test points at a scratch copy (VERIF_REPO_SRC) writes beside that copy
EVIDENCE_DIR = os.environ.get("VERIF_EVIDENCE_DIR") or (
    os.path.join(os.path.dirname(os.environ["VERIF_REPO_SRC"].rstrip("/")), "evidence") if os.environ.get("VERIF_REPO_SRC")
    else os.path.join(VERIF, "evidence"))
KNOWN_FILE = os.path.join(VERIF, "known_findings.json")


def jdump(o) -> str:
    return json.dumps(o, sort_keys=True, ensure_ascii=False, separators=(",", ":"), default=_default)


def _default(o):
    if isinstance(o, (bytes, bytearray)):
        return {"$b": bytes(o).hex()}
    if isinstance(o, (set, frozenset)):
        return sorted(o)
    return repr(o)


def digest(o) -> str:
    return hashlib.sha256(jdump(o).encode("utf-8", "surrogatepass")).hexdigest()[:16]


class Stats:
    """Mergeable counters + bounded sets of distinct signatures."""

    def __init__(self):
        self.c = Counter()
        self.groups: dict[str, Counter] = {}
        self.sets: dict[str, set] = {}
        self.samples: dict[str, list] = {}

    def inc(self, k, n=1):
        self.c[k] += n

    def group(self, g, k, n=1):
        self.groups.setdefault(g, Counter())[k] += n

    def distinct(self, name, value):
        self.sets.setdefault(name, set()).add(value if isinstance(value, (int, str)) else digest(value))

    def sample(self, name, value, cap=3):
        lst = self.samples.setdefault(name, [])
        if len(lst) < cap:
            lst.append(value)

    def merge(self, other: "Stats"):
        self.c.update(other.c)
        for g, cnt in other.groups.items():
            self.groups.setdefault(g, Counter()).update(cnt)
        for n, s in other.sets.items():
            self.sets.setdefault(n, set()).update(s)
        for n, l in other.samples.items():
            mine = self.samples.setdefault(n, [])
            for x in l:
                if len(mine) < 6 or n == "det":
                    mine.append(x)


def interleave(units: list, keyfn) -> list:
    """Proportional round-robin over the groups keyfn defines, so that a wall-clock cap leaves every kind of unit covered."""
    groups: dict = {}
    for u in units:
        groups.setdefault(keyfn(u), []).append(u)
    keyed = []
    for gi, g in enumerate(groups.values()):
        for i, u in enumerate(g):
            keyed.append(((i + 0.5) / len(g), gi, u))
    keyed.sort(key=lambda x: (x[0], x[1]))
    return [u for _, _, u in keyed]


def _unit_body(modname, unit):
    faulthandler.enable()
    # hang detection (a unit is seconds to a few minutes of work; the margin is for a machine shared with other batches)
    faulthandler.dump_traceback_later(int(os.environ.get("VERIF_UNIT_TIMEOUT", "1800")), exit=True)
    try:
        mod = sys.modules.get(modname) or __import__(modname, fromlist=["x"])
        t0 = time.time()
        st, viols = mod.run_unit(unit)
        st.inc("unit_wall_ms", int((time.time() - t0) * 1000))
        return ("ok", st, viols)
    except BaseException as e:  # harness error inside a worker
        return ("err", f"{type(e).__name__}: {e}\n{traceback.format_exc()}", unit)
    finally:
        faulthandler.cancel_dump_traceback_later()


INPROCESS_MODULES = {"sim.c19", "sim.c06"}


def _worker_entry(modname, unit):
    """One unit = one process.  The pool worker (or the main process) forks a child for the unit and only collects its result, so
    that no unit ever runs in a process that has executed code under test before: state that the code leaks from one call to the
    next (a module-level registry, a memo, a remembered refusal) stays inside the unit that created it -- the first run that shows
    it is then self-contained and replays -- and cannot turn later, unrelated units into a cloud of irreproducible candidates
    (that is what the seeded change r11a did to the first version of the follow-up check)."""
    if os.environ.get("VERIF_UNIT_INPROCESS") == "1" or modname in INPROCESS_MODULES:
        # C19 and C06 isolate what needs isolating themselves (every call sequence / golden run is served by a forked process of
        # its own) and pay a per-process warm-up that a fork per unit would multiply
        return _unit_body(modname, unit)
    import pickle
    import select
    import signal

    r, w = os.pipe()
    parent_pid = os.getpid()
    pid = os.fork()
    if pid == 0:
        code = 0
        try:
            os.close(r)
            try:
                from .common import _die_with_parent

                _die_with_parent(parent_pid)
            except Exception:  # noqa: BLE001
                pass
            data = pickle.dumps(_unit_body(modname, unit), protocol=pickle.HIGHEST_PROTOCOL)
            view = memoryview(data)
            while view:
                n = os.write(w, view)
                view = view[n:]
            os.close(w)
        except BaseException:  # noqa: BLE001
            code = 3
        finally:
            os._exit(code)
    os.close(w)
    chunks = []
    deadline = time.time() + int(os.environ.get("VERIF_UNIT_TIMEOUT", "1800")) + 60
    try:
        while True:
            left = deadline - time.time()
            if left <= 0:
                os.kill(pid, signal.SIGKILL)
                return ("err", f"unit {unit} timed out", unit)
            rl, _, _ = select.select([r], [], [], min(left, 5.0))
            if not rl:
                continue
            b = os.read(r, 1 << 20)
            if not b:
                break
            chunks.append(b)
    finally:
        os.close(r)
        try:
            os.waitpid(pid, 0)
        except OSError:
            pass
    if not chunks:
        return ("err", f"unit process died without a result: {unit}", unit)
    try:
        return pickle.loads(b"".join(chunks))
    except Exception as e:  # noqa: BLE001
        return ("err", f"unit result unreadable: {type(e).__name__}: {e}", unit)


def run_units(modname: str, units: list, workers: int | None = None, wall_cap: float | None = None,
              progress: bool = True):
    """Execute units in a fork pool.  Returns (Stats, violations, errors, completed_units)."""
    workers = workers or int(os.environ.get("VERIF_WORKERS", "0")) or min(16, os.cpu_count() or 4)
    total = Stats()
    viols: list = []
    errors: list = []
    done = 0
    t0 = time.time()
    if workers <= 1 or len(units) <= 1:
        for u in units:
            r = _worker_entry(modname, u)
            done += 1
            if r[0] == "ok":
                total.merge(r[1])
                viols.extend(r[2])
            else:
                errors.append(r[1])
            if wall_cap and time.time() - t0 > wall_cap:
                break
        return total, viols, errors, done
    ctx = multiprocessing.get_context("fork")
    with cf.ProcessPoolExecutor(max_workers=workers, mp_context=ctx) as ex:
        pending = set()
        it = iter(units)
        exhausted = False

        def feed():
            nonlocal exhausted
            while not exhausted and len(pending) < workers * 3:
                if wall_cap and time.time() - t0 > wall_cap:
                    exhausted = True
                    break
                try:
                    u = next(it)
                except StopIteration:
                    exhausted = True
                    break
                pending.add(ex.submit(_worker_entry, modname, u))

        feed()
        last = time.time()
        while pending:
            fin, _ = cf.wait(pending, timeout=2000, return_when=cf.FIRST_COMPLETED)
            if not fin:
                errors.append("no unit completed within 2000 s")
                for p in pending:
                    p.cancel()
                break
            for f in fin:
                pending.discard(f)
                try:
                    r = f.result()
                except Exception as e:  # BrokenProcessPool etc.
                    errors.append(f"worker failed: {type(e).__name__}: {e}")
                    continue
                done += 1
                if r[0] == "ok":
                    total.merge(r[1])
                    viols.extend(r[2])
                else:
                    errors.append(r[1])
            if errors and len(errors) > 20:
                break
            feed()
            if progress and time.time() - last > 30:
                last = time.time()
                print(f"  .. {done}/{len(units) if hasattr(units, '__len__') else '?'} units, "
                      f"{total.c.get('runs', 0)} runs, {len(viols)} violation candidates, {time.time() - t0:.0f}s",
                      flush=True)
    return total, viols, errors, done


# --------------------------------------------------------------------------- #
# known findings
# --------------------------------------------------------------------------- #


def load_known():
    try:
        with open(KNOWN_FILE, encoding="utf-8") as f:
            data = json.load(f)
    except FileNotFoundError:
        return []
    return data.get("findings", [])


def match_known(prop: str, signature: str):
    for k in load_known():
        if k.get("property") == prop and k.get("status") == "known" and k.get("signature") == signature:
            return k
    return None


# --------------------------------------------------------------------------- #
# replay files
# --------------------------------------------------------------------------- #


def write_replay(prop: str, case: dict, result: dict) -> str:
    os.makedirs(REPLAY_DIR, exist_ok=True)
    body = {
        "property": prop,
        "clause": result["violations"][0]["clause"] if result.get("violations") else None,
        "signature": result["violations"][0].get("signature") if result.get("violations") else None,
        "detail": result["violations"][0].get("detail") if result.get("violations") else None,
        "log_digest": result.get("digest"),
        "case": case,
        "event_log": result.get("log"),
    }
    name = f"{prop}-{case.get('seed', 0)}-{digest(case)}.json"
    path = os.path.join(REPLAY_DIR, name)
    with open(path, "w", encoding="utf-8") as f:
        json.dump(body, f, indent=1, ensure_ascii=False, default=_default, sort_keys=True)
    return path


def verify_replay_fresh(prop: str, path: str, timeout: float = 300.0):
    """Re-run the replay file in a fresh interpreter (different hash seed).
    Returns (reproduced: bool, output)."""
    env = dict(os.environ)
    env["PYTHONHASHSEED"] = "12345"
    env.pop("COVERAGE_PROCESS_START", None)
    env.pop("COVERAGE_PROCESS_CONFIG", None)
    cmd = [sys.executable, os.path.join(VERIF, "check"), prop, "--replay", path]
    try:
        p = subprocess.run(cmd, capture_output=True, text=True, timeout=timeout, env=env, cwd=VERIF)
    except subprocess.TimeoutExpired:
        return False, "replay timed out"
    ok = p.returncode == 1 and f"VIOLATION property={prop}" in p.stdout and "REPLAY-DIGEST-MATCH" in p.stdout
    return ok, p.stdout[-2000:] + p.stderr[-2000:]


# --------------------------------------------------------------------------- #
# evidence
# --------------------------------------------------------------------------- #


def write_evidence(prop: str, tier: str, seed: int, level: str, coverage: dict, assumptions: list, wall: float,
                   violations: int, extra: dict | None = None):
    os.makedirs(EVIDENCE_DIR, exist_ok=True)
    ev = {
        "property_id": prop,
        "tier": tier,
        "seed": seed,
        "level": level,
        "coverage": coverage,
        "assumptions": assumptions,
        "wall_s": round(wall, 2),
        "violations": violations,
    }
    if extra:
        ev.update(extra)
    path = os.path.join(EVIDENCE_DIR, f"{prop}.json")
    tmp = path + ".new"
    with open(tmp, "w", encoding="utf-8") as f:
        json.dump(ev, f, indent=1, ensure_ascii=False, default=_default, sort_keys=True)
    os.replace(tmp, path)
    return path


def finish(prop: str, mod, tier: str, seed: int, stats: Stats, viols: list, errors: list, wall: float,
           coverage: dict, assumptions: list, extra: dict | None = None, max_report: int = 6) -> int:
    """Common tail of every check: minimise, replay-verify, known findings, evidence, exit code."""
    exit_code = 0
    # group candidate violations by signature
    by_sig: dict[str, list] = {}
    for v in viols:
        by_sig.setdefault(v["signature"], []).append(v)
    reported = 0
    known_hits = []
    new_viols = []
    for sig in sorted(by_sig):
        group = by_sig[sig]
        k = match_known(prop, sig)
        if k is not None:
            known_hits.append((k, len(group)))
            continue
        new_viols.append((sig, group))
    for k, n in known_hits:
        print(f"KNOWN-FINDING: property={prop} {k['what']} [signature={k['signature']}, seen {n}x this run]")
    harness_errors = list(errors)
    # A candidate must be SELF-CONTAINED: its case alone, executed in a process that has run nothing else, shows the violation.
    # Workers execute many runs one after another; code under test that leaks state between calls (a module-level registry, a
    # memo) makes LATER, unrelated runs of the same worker misbehave -- those candidates are real symptoms but their case does not
    # contain the cause.  They are filtered first, cheaply (one forked child of this still-pristine process per candidate), and
    # counted; the self-contained ones are minimised and verified in a fresh interpreter as before.  If nothing is self-contained
    # the alarms are unexplained: harness error (exit 2), never a VIOLATION line.
    unrepro = []
    contained = []
    if os.environ.get("VERIF_DEBUG_SIGS"):
        with open(os.environ["VERIF_DEBUG_SIGS"], "w") as f_:
            for sig, group in new_viols:
                f_.write(f"{len(group)}\t{sig}\n")
                if "followup" in sig:
                    with open(os.environ["VERIF_DEBUG_SIGS"] + "." + sig.replace("|", "_") + ".json", "w") as g_:
                        g_.write(jdump([x["case"] for x in group[:3]]))
    for sig, group in new_viols:
        v = sorted(group, key=lambda x: len(jdump(x["case"])))[0]
        if len(contained) >= max_report + 4 or len(unrepro) >= 400:
            contained.append((sig, group, v, None))
            continue
        # representatives: the smallest case, and the candidates in discovery order (every unit starts in a pristine process, so
        # the FIRST violation a unit finds cannot depend on anything but its own case)
        reps = [v] + [g for g in group[:6] if g is not v]
        ok = False
        for cand in reps:
            try:
                from .common import in_fork

                ok = in_fork(lambda c_=cand["case"], s_=sig: any(x["signature"] == s_ for x in mod.run_case(c_)["violations"]), timeout=600)
            except Exception as e:  # noqa: BLE001
                ok = False
                unrepro.append(f"violation {sig}: isolated re-run failed: {type(e).__name__}: {e}")
                break
            if os.environ.get("VERIF_DEBUG_SIGS"):
                print(f"DEBUG isolated {sig} rep={reps.index(cand)} ok={ok}", file=sys.stderr)
            if ok:
                v = cand
                break
        if ok:
            contained.append((sig, group, v, True))
        else:
            unrepro.append(f"violation {sig} did not reproduce in an isolated process (its case does not contain its cause)")
    for sig, group, v, _ in contained:
        if reported >= max_report:
            print(f"  (+{len(group)} more violation candidates with signature {sig}, not minimised)")
            exit_code = 1
            continue
        case = v["case"]
        try:
            from .common import in_fork

            # this process never executes a case itself (it must stay pristine for the isolated re-runs): minimisation, the final
            # run that is recorded in the replay file, and the fall-back to the case as found each get a forked child of their own
            def _record(c_, s_=sig):
                res_ = mod.run_case(c_)
                res_["violations"] = [x for x in res_["violations"] if x["signature"] == s_]
                if not res_["violations"]:
                    return None
                return {"path": write_replay(prop, c_, res_), "detail": res_["violations"][0].get("detail", "")}

            small = in_fork(lambda: mod.minimise(case, v["clause"], sig), timeout=1500) if hasattr(mod, "minimise") else case
            rec = in_fork(lambda: _record(small), timeout=600)
            ok, out, path = False, "", None
            if rec is not None:
                path = rec["path"]
                ok, out = verify_replay_fresh(prop, path)
            if not ok and small != case:
                # the minimised case may have lost the step that sets the state up: fall back to the case as found
                rec = in_fork(lambda: _record(case), timeout=600)
                if rec is not None:
                    path = rec["path"]
                    ok, out = verify_replay_fresh(prop, path)
            if rec is None:
                unrepro.append(f"violation {sig} did not reproduce in-process (nondeterministic harness?)")
                continue
            if not ok:
                unrepro.append(f"replay {path} did not reproduce in a fresh interpreter:\n{out}")
                continue
            res = {"violations": [{"detail": rec["detail"]}]}
            print(f"VIOLATION property={prop} replay={path}")
            print(f"  clause={v['clause']} signature={sig}")
            print(f"  {res['violations'][0].get('detail', '')[:1500]}")
            print(f"  ({len(group)} run(s) of this batch hit it)")
            reported += 1
            exit_code = 1
        except Exception as e:
            harness_errors.append(f"minimise/replay failed for {sig}: {type(e).__name__}: {e}\n{traceback.format_exc()}")
    if unrepro and reported:
        print(f"  ({len(unrepro)} further violation candidate(s) did not reproduce from their own case in an isolated process: "
              f"symptoms of state left behind in a worker process by earlier runs; not reported individually)")
    elif unrepro:
        harness_errors.extend(unrepro)
    coverage = dict(coverage)
    coverage.setdefault("known_findings_seen", [k["signature"] for k, _ in known_hits])
    if harness_errors:
        coverage["harness_errors"] = [h[:500] for h in harness_errors[:5]]
    if unrepro and reported:
        coverage["candidates_not_self_contained"] = len(unrepro)
    write_evidence(prop, tier, seed, mod.LEVEL, coverage, assumptions, wall, sum(len(g) for _, g in new_viols), extra)
    if harness_errors:
        print(f"HARNESS-ERROR property={prop}: {len(harness_errors)} problem(s); first:\n{harness_errors[0][:3000]}",
              file=sys.stderr)
        if exit_code == 0:
            exit_code = 2
    if exit_code == 0:
        print(f"OK property={prop} tier={tier} seed={seed} runs={stats.c.get('runs', 0)} wall={wall:.1f}s")
    return exit_code
