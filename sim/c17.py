"""C17 -- base_hash is a real compare-and-swap; failed and dry calls change nothing.

L1: sequential histories against a register model (one actor, no faults).
L2: interleavings of 2-3 writer processes at file-operation granularity.
L3: concurrent / duplicated / reordered calls inside one server process (SimLoop).
See DESIGN.md section 4.
"""

from __future__ import annotations

import copy
import itertools
import json
import os
import sys

from . import docs, fsmodel, seam
from .common import drive, run_cli, sha_bytes, sha_text
from .runner import Stats, digest
from .tape import Tape, derive_seed

PROP = "C17"
LEVEL = "exploration"
TARGET = "sb/t.oct.md"


def text_hash(data: bytes) -> str | None:
    """The hash the tools compute: SHA-256 of the text read in universal-newline mode."""
    try:
        s = data.decode("utf-8")
    except UnicodeDecodeError:
        return None
    return sha_text(s.replace("\r\n", "\n").replace("\r", "\n"))


# --------------------------------------------------------------------------- #
# calls
# --------------------------------------------------------------------------- #


def make_call(call: dict, root: str, tool=None):
    """call: {entry, mode, text?, changes?, bh?, dry?, path?}  ->  zero-argument callable"""
    target = os.path.join(root, call.get("path") or TARGET)
    # the same file named differently (mutual exclusion and comparison must not depend on the spelling of the path);
    # "rel" needs the process's working directory to be ``root`` (run_race sees to that)
    spell = call.get("spell") or "abs"
    if spell == "dot":
        target = os.path.join(root, ".", os.path.dirname(call.get("path") or TARGET), ".", os.path.basename(call.get("path") or TARGET))
    elif spell == "dslash":
        target = root + "//" + (call.get("path") or TARGET).replace("/", "//")
    elif spell == "rel":
        target = call.get("path") or TARGET
    elif spell == "reldot":
        target = "./" + (call.get("path") or TARGET)
    elif spell == "bare":  # needs the working directory to be the target's directory (case["cwd"] == "dir")
        target = os.path.basename(call.get("path") or TARGET)
    elif spell == "baredot":
        target = "./" + os.path.basename(call.get("path") or TARGET)
    entry = call["entry"]
    bh = call.get("bh")
    if entry == "tool":
        from octave_mcp.mcp.write import WriteTool

        kw = {"target_path": target}
        if call["mode"] in ("content", "both"):
            kw["content"] = call["text"]
        if call["mode"] in ("changes", "both"):
            kw["changes"] = copy.deepcopy(call["changes"])
        if bh is not None:
            kw["base_hash"] = bh
        if call.get("dry"):
            kw["corrections_only"] = True
        if call.get("lenient"):
            kw["lenient"] = True
        for k_, v_ in (call.get("extra_args") or {}).items():
            if k_ == "mutations" and call["mode"] not in ("content", "changes"):
                continue
            kw[k_] = copy.deepcopy(v_)
        t = tool or WriteTool()
        return lambda: drive(t.execute(**kw))
    if entry == "atomic":
        from octave_mcp.core.file_ops import atomic_write_octave

        return lambda: atomic_write_octave(target, call["text"], bh)
    if entry == "editor":
        # another PROGRAM (not the tool) edits the file in place while writers are at work: same inode, same size, mtime restored
        def edit():
            try:
                st_ = os.stat(target)
                fd_ = os.open(target, os.O_RDWR)
            except OSError:
                return {"status": "success", "edited": False}
            try:
                data = bytearray(os.read(fd_, 1 << 20))
                for i_ in range(len(data) - 1, -1, -1):
                    if 0x61 <= data[i_] <= 0x79 or 0x41 <= data[i_] <= 0x59 or 0x30 <= data[i_] <= 0x38:
                        data[i_] += 1
                        break
                os.lseek(fd_, 0, 0)
                os.write(fd_, bytes(data))
            finally:
                os.close(fd_)
            os.utime(target, ns=(st_.st_atime_ns, st_.st_mtime_ns))
            return {"status": "success", "edited": True}

        return edit
    if entry == "cli":
        args = ["write", target]
        if call["mode"] == "content":
            args += ["--content", call["text"]]
        else:
            args += ["--changes", json.dumps(call["changes"])]
        if bh is not None:
            args += ["--base-hash", bh]
        return lambda: run_cli(args)
    raise ValueError(entry)


def outcome_of(call: dict, actor) -> dict:
    """Normalise the three result shapes: {status: success|error|crash|raised, code, hash, msg}"""
    if actor.outcome in ("killed", "interrupted"):
        return {"status": "crash"}
    if actor.outcome == "raised":
        return {"status": "raised", "msg": f"{type(actor.exc).__name__}: {actor.exc}"[:200]}
    return outcome_of_result(call, actor.result)


def outcome_of_result(call: dict, r) -> dict:
    if call["entry"] == "editor":
        return {"status": "external", "edited": r.get("edited")}
    if call["entry"] == "cli":
        text = " ".join(m for _, m in r["out"])
        if r["exit"] == 0:
            h = None
            for _, m in r["out"]:
                if m.startswith("canonical_hash: "):
                    h = m.split(": ", 1)[1].strip()
            return {"status": "success", "hash": h}
        return {"status": "error", "code": "E_HASH" if "Hash mismatch" in text else "OTHER", "msg": text[:200]}
    if call["entry"] == "atomic":
        if r.get("status") == "success":
            return {"status": "success", "hash": r.get("canonical_hash")}
        msg = str(r.get("error"))
        return {"status": "error", "code": "E_HASH" if "Hash mismatch" in msg else "OTHER", "msg": msg[:200]}
    if r.get("status") == "success":
        return {"status": "success", "hash": r.get("canonical_hash"), "dry": bool(call.get("dry"))}
    codes = [e.get("code") for e in r.get("errors", []) if isinstance(e, dict)]
    return {"status": "error", "code": codes[0] if codes else "?", "msg": str(r.get("errors"))[:200]}


# --------------------------------------------------------------------------- #
# L1: sequential histories vs the register model
# --------------------------------------------------------------------------- #

BH_KINDS = ["none", "empty", "current", "stale", "future", "flip", "trunc8", "trunc32", "extend", "upper", "newline", "of_empty"]
BH_WEIGHTS = [("none", 5), ("current", 8), ("stale", 4), ("future", 3), ("flip", 2), ("trunc8", 2), ("trunc32", 1),
              ("extend", 1), ("upper", 1), ("newline", 1), ("empty", 1), ("spaces", 1), ("padded", 1), ("prefixed", 1), ("of_empty", 3)]
STEP_KINDS = [("ext_bom", 1), ("ext_fm_only", 1), ("ext_trailing_ws", 1), ("ext_nonl", 1), ("ext_stealth", 3), ("ext_empty", 2), ("ext_crlf", 2), ("ext_binary", 1), ("content", 8), ("changes", 5), ("normalize", 3), ("content_dry", 2), ("changes_dry", 1), ("normalize_dry", 1),
              ("cli_content", 2), ("cli_changes", 2), ("atomic", 2), ("ext_valid", 3), ("ext_invalid", 1), ("ext_delete", 1),
              # shortcuts live here: the SAME text the file already holds is sent again; the previous call is re-sent verbatim
              ("content_same", 2), ("resend", 2),
              ("bad_both", 1), ("bad_path", 1), ("bad_content", 2), ("ext_lenient", 2)]


def gen_history(t: Tape, idx: int, maxlen: int) -> dict:
    n = 1 + t.choose(maxlen, "h.len")
    init_kind = t.weighted([("canonical", 6), ("absent", 2), ("lenient", 2), ("frontmatter", 1), ("empty", 1)], "h.init")
    m = f"h{idx:x}"
    init = None if init_kind == "absent" else "" if init_kind == "empty" else (
        docs.canonical(docs.gen_doc(t, m + "i")) if init_kind == "canonical" else docs.gen_doc(t, m + "i", init_kind))
    steps = []
    for k in range(n):
        kind = t.weighted(STEP_KINDS, "h.kind")
        st = {"kind": kind, "bhk": t.weighted(BH_WEIGHTS, "h.bh")}
        mk = f"{m}s{k}"
        if kind in ("content", "content_dry", "cli_content", "atomic", "bad_both", "bad_path", "content_same"):
            st["text"] = docs.gen_doc(t, mk, t.pick(["canonical", "canonical", "frontmatter", "noenvelope", "holo_repairable"], "h.style"))
            if kind == "atomic":
                st["text"] = docs.canonical(st["text"])
        if kind == "bad_content":
            st["text"] = t.pick(docs.UNPARSEABLE, "h.unp")
            st["entry"] = t.pick(["tool", "cli"], "h.bce")
        if kind in ("changes", "changes_dry", "cli_changes", "bad_both"):
            st["changes"] = t.pick([{"MARK": "c" + mk}, {"META.STATUS": "ACTIVE", "ADDED": ["p", mk]},
                                    {"K0": {"$op": "DELETE"}, "MARK": "d" + mk}, {"NEW_" + mk.upper(): 7}], "h.ch")
        if kind == "ext_valid":
            st["text"] = docs.canonical(docs.gen_doc(t, mk + "x"))
        if kind == "ext_lenient":
            st["text"] = docs.gen_doc(t, mk + "x", "lenient")
        if kind == "ext_crlf":
            st["text"] = docs.gen_doc(t, mk + "x", t.pick(["canonical", "frontmatter"], "h.crlf")).replace("\n", "\r\n")
        if kind == "ext_binary":
            st["text"] = None
        if kind == "ext_bom":
            st["text"] = "\ufeff" + docs.canonical(docs.gen_doc(t, mk + "x"))
            st["same"] = bool(t.choose(2, "h.bomsame"))  # True: an editor re-saves the CURRENT content 'with BOM'
        if kind == "ext_trailing_ws":
            st["same"] = bool(t.choose(2, "h.wssame"))
        if kind == "ext_fm_only":
            st["text"] = "---\nname: only-" + mk + "\ndescription: no body\n---\n"
        if kind == "ext_trailing_ws":
            st["text"] = docs.gen_doc(t, mk + "x", "trail")
        if kind == "ext_nonl":
            st["text"] = docs.gen_doc(t, mk + "x", "nonl")
        if kind == "ext_empty":
            st["text"] = ""  # truncated in place to zero bytes: an existing file whose text is the empty string
        if kind == "ext_invalid":
            st["text"] = t.pick(docs.UNPARSEABLE + ["plain prose, not octave :: {\n"], "h.inv")
        if kind == "bad_path":
            st["path"] = t.pick(["sb/../sb/t.oct.md", "sb/t.txt", "sb/link.oct.md", "sb/t.oct.md.bak"], "h.bp")
        steps.append(st)
    case = {"layer": "L1", "init": init, "steps": steps}
    # a server keeps ONE WriteTool for its whole life: whatever an instance remembers between calls is part of the history
    case["shared_tool"] = bool(t.choose(3, "h.shared"))
    if t.flag(200, "h.deep"):
        # the target lives in a directory that does not exist yet: a failing or dry call must not create it
        case["target"] = "sb/nd/deeper/t.oct.md"
        case["init"] = None
    if t.flag(350, "h.args"):
        case["extra_args"] = t.pick([{"lenient": True}, {"schema": "META"}, {"schema": "NOPE", "debug_grammar": True},
                                     {"lenient": True, "parse_error_policy": "salvage"}, {"mutations": {"STATUS": "ACTIVE"}},
                                     {"schema": "META", "grammar_hint": True, "lenient": True},
                                     {"schema": "TEST_HOLOGRAPHIC", "grammar_hint": True, "lenient": True},
                                     {"schema": "TEST_HOLOGRAPHIC", "grammar_hint": True, "debug_grammar": True},
                                     {"schema": "SKILL", "grammar_hint": True}], "h.argset")
    return case


def bh_value(kind: str, cur: bytes | None, prev_hashes: list, future_text: str | None) -> str | None:
    cur_h = text_hash(cur) if cur is not None else None
    if kind == "none":
        return None
    if kind == "empty":
        return ""
    base = cur_h or sha_text("absent")
    if kind == "current":
        return base
    if kind == "stale":
        for h in reversed(prev_hashes):
            if h != base:
                return h
        return sha_text("never on disk")
    if kind == "future":
        try:
            return sha_text(docs.canonical(future_text)) if future_text else sha_text("future")
        except Exception:
            return sha_text("future")
    if kind == "of_empty":
        # the digest of the EMPTY text: what a client holds after it saw the file empty, and what any "could not read it,
        # call it ''" fallback inside the code would compare against
        return sha_text("")
    if kind == "flip":
        return base[:-1] + ("0" if base[-1] != "0" else "1")
    if kind == "trunc8":
        return base[:8]
    if kind == "trunc32":
        return base[:32]
    if kind == "extend":
        return base + "a"
    if kind == "upper":
        return base.upper()
    if kind == "newline":
        return base + "\n"
    if kind == "spaces":
        return "   "  # not a digest at all: nothing hashes to it
    if kind == "padded":
        return " " + base + " "  # the same digest, padded
    if kind == "prefixed":
        return "sha256:" + base  # another conventional spelling of the same digest
    raise ValueError(kind)


def _stamps(root):
    """(inode, mtime_ns) of every non-directory below root (lstat, real functions).  Directory mtimes are deliberately not
    compared: a call that creates and removes its own temp file has left names, bytes and modes exactly as they were, and
    demanding an untouched directory timestamp as well would ask for more than the property states."""
    out = {}
    lst = seam.real("lstat")
    for dp, dns, fns in os.walk(root):
        for n in fns:
            p_ = os.path.join(dp, n)
            try:
                st = lst(p_)
                out[p_[len(root):]] = (st.st_ino, st.st_mtime_ns)
            except OSError:
                pass
    return out


def _stamps_changed(before, root):
    with seam.passthrough():
        now = _stamps(root)
    return sorted(k for k in set(before) | set(now) if before.get(k) != now.get(k))


def _ident(path):
    try:
        st = seam.real("lstat")(path)
        return (st.st_ino, st.st_mtime_ns)
    except OSError:
        return None


def run_history(case: dict, stats: Stats | None = None) -> dict:
    """Execute one sequential history; returns violations etc."""
    # a directory of its own per history: state that code under test might key by PATH cannot leak from one history to the next
    root = fsmodel.fresh_root("h-" + digest([case.get("init"), case["steps"], case.get("target")])[:12])
    TARGET = case.get("target") or globals()["TARGET"]
    spec = [("d", "sb", 0o755), ("f", "sb/other.oct.md", b"===O===\nX::1\n===END===\n", 0o644),
            ("l", "sb/link.oct.md", "other.oct.md"),
            # everything a process might quietly write to lives INSIDE the snapshotted root: HOME (with the project's documented
            # ~/.octave cache root), TMPDIR, XDG cache, the working directory
            ("d", "home/.octave", 0o755), ("d", "home/.cache", 0o755), ("d", "tmp", 0o777), ("d", "cwd", 0o755)]
    if case["init"] is not None:
        spec.append(("f", TARGET, case["init"].encode(), case.get("fmode", 0o644)))
    fsmodel.build_tree(root, spec)
    target = os.path.join(root, TARGET)
    env_old = {k_: os.environ.get(k_) for k_ in ("HOME", "TMPDIR", "XDG_CACHE_HOME", "XDG_CONFIG_HOME")}
    cwd_old = os.getcwd()
    os.environ.update(HOME=os.path.join(root, "home"), TMPDIR=os.path.join(root, "tmp"), XDG_CACHE_HOME=os.path.join(root, "home/.cache"),
                      XDG_CONFIG_HOME=os.path.join(root, "home/.config"))
    os.chdir(os.path.join(root, "cwd"))
    try:
        return _run_history(case, stats, root, target, TARGET)
    finally:
        os.chdir(cwd_old)
        with seam.passthrough():
            import shutil

            shutil.rmtree(root, ignore_errors=True)
        for k_, v_ in env_old.items():
            if v_ is None:
                os.environ.pop(k_, None)
            else:
                os.environ[k_] = v_


def _run_history(case, stats, root, target, TARGET):
    viols = []
    log = []
    prev_hashes: list = []
    sig_hist = []
    shared_tool = None
    if case.get("shared_tool", True):
        from octave_mcp.mcp.write import WriteTool

        shared_tool = WriteTool()
    last_call = None  # (call dict, effective kind) of the most recent tool/CLI call, for 'resend'

    def V(clause, detail, step):
        viols.append({"clause": clause, "detail": f"step {step}: {detail}",
                      "signature": f"L1.{clause}|{case['steps'][step]['kind']}|{case['steps'][step]['bhk']}"})

    for k, st in enumerate(case["steps"]):
        snap0 = fsmodel.snapshot(root)
        node = snap0.get(TARGET)
        ident0 = _ident(target)
        with seam.passthrough():
            stamps0 = _stamps(root)
        cur = node[2] if node and node[0] == "f" else None
        cur_h = text_hash(cur) if cur is not None else None
        if cur_h:
            prev_hashes.append(cur_h)
        kind = st["kind"]
        if kind.startswith("ext_"):
            with seam.passthrough():
                if kind == "ext_stealth":
                    # modified in place by another program: same inode, same size, SAME mtime -- only the bytes differ.
                    # A CAS that trusts a stat signature instead of the content is blind to this.
                    if cur is not None and len(cur) > 0:
                        st_ = os.stat(target)
                        data = bytearray(cur)
                        for i_ in range(len(data) - 1, -1, -1):
                            if 0x61 <= data[i_] <= 0x79 or 0x41 <= data[i_] <= 0x59 or 0x30 <= data[i_] <= 0x38:
                                data[i_] += 1
                                break
                        fd_ = os.open(target, os.O_WRONLY)
                        try:
                            os.write(fd_, bytes(data))
                        finally:
                            os.close(fd_)
                        os.utime(target, ns=(st_.st_atime_ns, st_.st_mtime_ns))
                elif kind == "ext_delete":
                    if os.path.lexists(target):
                        os.unlink(target)
                else:
                    os.makedirs(os.path.dirname(target), exist_ok=True)
                    payload = st["text"].encode() if st.get("text") is not None else None
                    if st.get("same") and cur is not None and cur_h is not None:
                        # the same document, re-saved by an editor with a tiny byte-level difference
                        payload = (b"\xef\xbb\xbf" + cur) if kind == "ext_bom" else cur.replace(b"\n", b"  \n", 1)
                    with open(target, "wb") as f:
                        f.write(payload if payload is not None else b"===DOC===\nA::\xff\xfe\x00\n===END===\n")
            log.append([k, kind])
            sig_hist.append(kind)
            continue
        # ---- build the call
        call = {"entry": "tool", "mode": None}
        step_kind = kind
        if kind == "content_same":
            # the text the file already holds (when it has one): a "nothing to do" shortcut must still honour base_hash
            same = None
            if cur is not None and cur_h is not None:
                same = cur.decode("utf-8")
            call.update(mode="content", text=same if same is not None else st["text"])
            kind = "content"
        elif kind == "resend" and last_call is not None:
            # the client did not see the answer and sends the very same request again (same base_hash string, now possibly stale)
            call = copy.deepcopy(last_call[0])
            kind = last_call[1]
        elif kind == "resend":
            call.update(mode="normalize")
            kind = "normalize"
        if step_kind in ("content_same", "resend"):
            pass
        elif kind in ("content", "content_dry"):
            call.update(mode="content", text=st["text"], dry=kind.endswith("_dry"))
        elif kind in ("changes", "changes_dry"):
            call.update(mode="changes", changes=st["changes"], dry=kind.endswith("_dry"))
        elif kind in ("normalize", "normalize_dry"):
            call.update(mode="normalize", dry=kind.endswith("_dry"))
        elif kind == "cli_content":
            call.update(entry="cli", mode="content", text=st["text"])
        elif kind == "cli_changes":
            call.update(entry="cli", mode="changes", changes=st["changes"])
        elif kind == "atomic":
            call.update(entry="atomic", mode="content", text=st["text"])
        elif kind == "bad_both":
            call.update(mode="both", text=st["text"], changes=st["changes"])
        elif kind == "bad_path":
            call.update(mode="content", text=st["text"], path=st["path"])
        elif kind == "bad_content":
            call.update(entry=st.get("entry", "tool"), mode="content", text=st["text"])
        if step_kind == "resend" and last_call is not None:
            bh = call.get("bh")
        else:
            bh = bh_value(st["bhk"], cur, prev_hashes, st.get("text"))
            call["bh"] = bh
        if case.get("target") and not call.get("path"):
            call["path"] = case["target"]
        if case.get("extra_args") and call["entry"] == "tool" and kind in ("content", "content_dry", "changes", "changes_dry", "normalize",
                                                                               "normalize_dry", "bad_content"):
            call["extra_args"] = case["extra_args"]
        # ---- run it under the seam (single actor: op log, no scheduling)
        sim = seam.Simulation(root, Tape(values=[]), seam.Knobs(), faults=st.get("faults") or [], record_unscoped=True)
        sim.claims_outside = True
        a = sim.add_actor("c", make_call(call, root, shared_tool), faultable=bool(st.get("faults")))
        sim.run()
        faulted = bool(sim.fired)
        last_ops = [(op.name, op.cls, op.path) for op in a.ops]
        if sim.bypass:
            raise seam.HarnessError(f"seam bypass: {sim.bypass[:3]}")
        out = outcome_of(call, a)
        if kind in ("content", "changes", "normalize", "cli_content", "cli_changes", "atomic"):
            last_call = (copy.deepcopy(call), kind)
        snap1 = fsmodel.snapshot(root)
        outside_writes = [(n_, p_) for _, n_, p_ in sim.outside_mutations] or [(n_, p_) for _, n_, p_, _ in sim.unscoped
                          if (n_ in ("mkdir", "rmdir", "replace", "rename", "unlink", "remove", "chmod", "truncate", "symlink", "link", "utime")
                              or (n_.startswith("open:") and any(c_ in n_[5:] for c_ in "wax+")))
                          and not p_.startswith(("/dev/", "/proc/"))]
        d = fsmodel.diff(snap0, snap1)
        mut_ops = [op.brief(root) for op in a.ops if op.cls in seam.MUTATING_CLASSES]
        log.append([k, step_kind, st["bhk"], out.get("status"), out.get("code"), d])
        sig_hist.append(f"{step_kind}/{st['bhk']}/{out.get('status')}/{out.get('code')}")
        # ---- the model
        exists = cur is not None
        decodable = cur_h is not None
        clean = kind in ("content", "content_dry", "changes", "changes_dry", "normalize", "normalize_dry", "cli_content",
                         "cli_changes", "atomic")
        bh_norm = bh.strip().lower() if bh else None
        if bh_norm and bh_norm.startswith("sha256:"):
            bh_norm = bh_norm[7:]
        different_digest = bool(bh) and exists and decodable and bh_norm != cur_h
        if bool(bh) and exists and not decodable:
            # bytes that are not UTF-8 have no text hash; the only digest "the file's content hashes to" can then mean is that of
            # the raw bytes.  Any other base_hash (e.g. the digest of the empty text, which a fallback "could not decode it,
            # call it ''" would produce) does not match the file, whatever reading of the property one takes
            different_digest = bh_norm != sha_bytes(cur)
        same_digest_other_spelling = bool(bh) and exists and decodable and bh_norm == cur_h and bh != cur_h
        status = out["status"]
        if status == "raised":
            # tools raising is C20's business; for C17 it counts as a failed call
            status = "error"
        dry = bool(call.get("dry"))
        if faulted and status == "error":
            # an injected failure: which error code comes back and whether the clean-up could complete are C16's business (it knows
            # the excuses); C17 keeps the one thing no failure excuses: the TARGET does not change on a failed or mismatching call
            if (snap1.get(TARGET) or (None,))[:3] != (node or (None,))[:3]:
                V("inert", f"{kind} returned {out} under an injected failure {sim.fired} and the target changed", k)
        elif status == "error" or dry:
            if d:
                V("inert", f"{kind} returned {out} but the file system changed: {d}", k)
            elif outside_writes:
                V("inert-outside", f"{kind} returned {out} but wrote OUTSIDE the sandbox: {outside_writes[:3]}", k)
            elif _stamps_changed(stamps0, root):
                V("inert-touched", f"{kind} returned {out}; names, bytes and modes are unchanged but these entries were rewritten or touched "
                                   f"(inode/mtime changed): {_stamps_changed(stamps0, root)[:4]}", k)
            elif _ident(target) != ident0:
                V("inert-touched", f"{kind} returned {out}; the target's bytes are the same but it was rewritten or touched "
                                   f"(inode/mtime {ident0} -> {_ident(target)})", k)
            if dry and mut_ops:
                V("dry-ops", f"corrections_only call issued mutating operations {mut_ops[:3]}", k)
        salvaging = kind == "bad_content" and (call.get("extra_args") or {}).get("lenient")
        if not clean and status == "success" and not dry and not salvaging:
            V("bad-call-succeeded", f"{kind} with invalid arguments returned success: {out}", k)
        if different_digest:
            if status == "success" and not dry:
                V("cas", f"{kind} carried base_hash {bh!r} != current {(cur_h or 'bytes:' + sha_bytes(cur))[:18]} and still succeeded", k)
            elif clean and decodable and status == "error" and out.get("code") != "E_HASH" and not faulted:
                # legitimate earlier stages: changes/normalize need a parseable file? no - hash check precedes parsing.
                # CLI content mode parses the new content first (never fails here: content is valid); CLI changes parses the file first.
                # the only call that legitimately fails earlier: CLI changes mode parses the existing file before the CAS check
                if kind != "cli_changes":
                    V("cas-code", f"{kind} with mismatching base_hash failed with {out} instead of E_HASH", k)
        if status == "success" and not dry:
            node1 = snap1.get(TARGET)
            if node1 is None or node1[0] != "f":
                V("success-no-file", f"{kind} returned success but target is {node1}", k)
            else:
                h1 = sha_bytes(node1[2])
                if out.get("hash") and h1 != out["hash"]:
                    V("success-hash", f"file hashes to {h1[:12]}, envelope says {str(out.get('hash'))[:12]}", k)
                if node and node[0] == "f" and node1[1] != node[1]:
                    V("success-mode", f"mode changed {oct(node[1])} -> {oct(node1[1])}", k)
            others = [x for x in d if not x[2:].startswith(TARGET + " ")
                      and not (x.startswith("+ ") and " dir " in x and TARGET.startswith(x[2:].split(" ")[0] + "/"))]
            if others:
                V("frame", f"successful {kind} changed other entries: {others}", k)
        if stats is not None:
            stats.group("l1_steps", f"{step_kind}:{st['bhk']}:{out.get('status')}:{out.get('code') or ''}")
            if same_digest_other_spelling:
                stats.group("probes", f"same_digest_spelling_{st['bhk']}_{status}")
    if stats is not None:
        stats.inc("runs")
        stats.inc("l1_histories")
        stats.inc("l1_steps_total", len(case["steps"]))
        stats.distinct("l1_history_shapes", "|".join(sig_hist))
        if len(case["steps"]) >= 2:
            stats.inc("l1_nontrivial")
    return {"violations": viols, "log": log, "digest": digest(log), "last_ops": last_ops if case["steps"] and not case["steps"][-1]["kind"].startswith("ext_") else [],
            "fired_any": bool(case["steps"]) and not case["steps"][-1]["kind"].startswith("ext_") and faulted}


# --------------------------------------------------------------------------- #
# L1f: one call carrying a base_hash that does NOT match, with every operation it performs made to fail in turn
# --------------------------------------------------------------------------- #

L1F_KINDS = ["content", "changes", "normalize", "cli_content", "cli_changes", "atomic"]
L1F_BH = ["stale", "future", "of_empty", "current"]
L1F_ERRNOS = ["EIO", "EACCES", "EINTR", "ENOSPC", "EROFS"]


def l1f_cases() -> list:
    out = []
    for kind in L1F_KINDS:
        for bhk in L1F_BH:
            for pre in (None, "ext_valid", "ext_binary"):
                if pre == "ext_binary" and bhk == "current":
                    continue
                out.append((kind, bhk, pre))
    return out


def run_l1f(idx: int, stats: Stats, viols: list):
    """A read that fails must never be taken for 'the file matches', 'there is no file' or 'nothing to compare': for every
    operation the call performs (learned from a fault-free run of the same history) and every errno its class admits, the call is
    repeated with that one failure.  Oracle = the L1 register model; under a fired fault only the error code is not judged."""
    kind, bhk, pre = l1f_cases()[idx]
    base = l1x_history(0, None)
    init = base["init"]
    steps = []
    if pre == "ext_valid":
        steps.append({"kind": "ext_valid", "bhk": "none", "text": init.replace("MARK::init", "MARK::edited_elsewhere")})
    elif pre == "ext_binary":
        steps.append({"kind": "ext_binary", "bhk": "none", "text": None})
    st = {"kind": kind, "bhk": bhk, "text": init.replace("MARK::init", f"MARK::new_{idx}"), "changes": {"MARK": f"chg_{idx}"}}
    case0 = {"layer": "L1", "init": init, "steps": steps + [st], "prop": PROP, "seed": 0, "enumerated": True, "l1f": idx}
    ref = run_history(case0, stats)
    stats.inc("l1f_reference_runs")
    for v in ref["violations"]:
        if len(viols) < 30:
            viols.append({"clause": v["clause"], "signature": v["signature"], "detail": v["detail"], "case": case0})
    n = 0
    for at, (name, cls, opath) in enumerate(ref["last_ops"]):
        for en in L1F_ERRNOS:
            if en not in seam.admissible(name):
                continue
            # one-shot; sticky (the errno stays for every later operation that admits it); "same" = this operation on this path
            # keeps failing (e.g. every read of the target) while everything else works
            for mode in ("once", "sticky", "same"):
                st2 = dict(st, faults=[{"actor": 0, "at": at, "kind": "errno", "errno": en, "sticky": {"once": False, "sticky": True, "same": "same"}[mode]}])
                case = dict(case0, steps=steps + [st2])
                res = run_history(case, stats)
                n += 1
                if res["fired_any"]:
                    stats.inc("l1f_faulted_runs")
                    stats.group("fault_counts", en)
                    stats.group("l1f_fault_at_class", f"{cls}:{en}")
                for v in res["violations"]:
                    if len(viols) < 30:
                        viols.append({"clause": v["clause"], "signature": v["signature"], "detail": v["detail"], "case": case})
    stats.group("l1f_runs_per_case", f"{kind}/{bhk}/{pre or '-'}", n)


# --------------------------------------------------------------------------- #
# L2: interleavings of writer processes
# --------------------------------------------------------------------------- #


def gen_race(t: Tape, idx: int) -> dict:
    m = f"r{idx:x}"
    init_kind = t.weighted([("canonical", 6), ("lenient", 2), ("frontmatter", 1), ("absent", 1)], "r.init")
    init = None if init_kind == "absent" else (
        docs.canonical(docs.gen_doc(t, m + "i")) if init_kind == "canonical" else docs.gen_doc(t, m + "i", init_kind))
    cur_h = text_hash(init.encode()) if init is not None else sha_text("nothing")
    n = t.weighted([(2, 7), (3, 3)], "r.n")
    writers = []
    for i in range(n):
        entry = t.weighted([("tool", 6), ("atomic", 2), ("cli", 2)], "r.entry")
        mode = "content"
        if init is not None and entry in ("tool", "cli"):
            mode = t.weighted([("content", 6), ("changes", 3), ("normalize", 1 if entry == "tool" else 0)], "r.mode")
        w = {"entry": entry, "mode": mode}
        if mode == "content":
            w["text"] = docs.gen_doc(t, f"{m}w{i}")
            if entry == "atomic":
                w["text"] = docs.canonical(w["text"])
        elif mode == "changes":
            w["changes"] = {"MARK": f"chg_{m}w{i}"}
        w["bh"] = t.weighted([(cur_h, 8), (None, 2), (sha_text("stale"), 1)], "r.bh")
        writers.append(w)
    cwd_kind = "root"
    if t.flag(300, "r.spell"):
        cwd_kind = t.pick(["root", "dir"], "r.cwd")
        for w in writers:
            w["spell"] = t.pick(["abs", "dot", "dslash"] + (["rel", "reldot"] if cwd_kind == "root" else ["bare", "baredot"]), "r.sp")
    if init is not None and t.flag(250, "r.editor"):
        writers.append({"entry": "editor", "mode": "stealth", "bh": None})
    knobs = {"sched": t.pick(["focus", "uniform", "focus"], "r.sched"), "switch_permille": t.pick([500, 300, 800, 150], "r.sw"),
             "wchunk": t.pick([1 << 16, 64], "r.wc"), "tmp_shared": bool(t.choose(2, "r.tmp"))}
    case = {"layer": "L2", "init": init, "writers": writers, "knobs": knobs, "tape": {"seed": t.choose(1 << 30, "r.tseed")},
            "fmode": t.pick([0o644, 0o444, 0o600, 0o400, 0o664, 0o755], "r.fmode"), "cwd": cwd_kind}
    if t.flag(200, "r.kill"):
        case["fault_cfg"] = {"rate": 60, "boost": 60, "max": 1, "kinds": ["kill"], "window": 0}
        case["ftape"] = {"seed": t.choose(1 << 30, "r.fseed")}
    return case


def _tape_of(d):
    if not d:
        return Tape(values=[])
    if "values" in d:
        return Tape(values=d["values"])
    return Tape(seed=d["seed"])


ABSTRACT = {"open_r": "R", "replace": "X", "rename": "X"}


def run_race(case: dict, stats: Stats | None = None) -> dict:
    root = fsmodel.fresh_root("r")
    spec = [("d", "sb", 0o755), ("f", "sb/other.oct.md", b"===O===\nX::1\n===END===\n", 0o644)]
    if case["init"] is not None:
        spec.append(("f", TARGET, case["init"].encode(), case.get("fmode", 0o644)))
    fsmodel.build_tree(root, spec)
    target = os.path.join(root, TARGET)
    tape = _tape_of(case.get("tape"))
    ftape = _tape_of(case.get("ftape")) if case.get("fault_cfg") else None
    sim = seam.Simulation(root, tape, seam.Knobs(**case.get("knobs", {})), faults=case.get("faults") or [],
                          fault_cfg=case.get("fault_cfg"), focus_paths=(target,), ftape=ftape)
    writers = case["writers"]
    viols = []
    installs = []  # (actor, sha_before_text, existed, sha_after)
    abstract = []

    def V(clause, detail, trace, shape=""):
        viols.append({"clause": clause, "detail": detail + f" [abstract order: {trace}]", "signature": f"L2.{clause}|{shape}"})

    ext_mods = []  # global indices of in-place modifications by a non-cooperating program (the 'editor' actor)

    def before_op(sim_, a, op, kind):
        if op.path == target and op.name == "write" and writers[a.id]["entry"] == "editor" and kind == "proceed":
            ext_mods.append(len(sim_.events) - 1)
        if op.path == target or op.path2 == target:
            if op.name in ABSTRACT:
                abstract.append((a.id, ABSTRACT[op.name]))
        if op.name in ("replace", "rename") and op.path2 == target and kind == "proceed":
            try:
                with seam.real("io.open")(target, "rb") as f:
                    data = f.read()
                installs.append({"actor": a.id, "pre": text_hash(data), "existed": True, "gidx": op.gidx})
            except FileNotFoundError:
                installs.append({"actor": a.id, "pre": None, "existed": False, "gidx": op.gidx})

    def after_op(sim_, a, op):
        if op.name in ("replace", "rename") and op.path2 == target:
            if op.outcome == "ok" and installs and installs[-1]["actor"] == a.id:
                with seam.real("io.open")(target, "rb") as f:
                    installs[-1]["post"] = sha_bytes(f.read())
                installs[-1]["done"] = True

    sim.before_op, sim.after_op = before_op, after_op
    actors = [sim.add_actor(f"w{i}", make_call(w, root), faultable=True) for i, w in enumerate(writers)]
    cwd_old = os.getcwd()
    # relative spellings of the target: "rel"/"reldot" are relative to the sandbox root, "bare"/"baredot" to the target's directory
    os.chdir(os.path.dirname(target) if case.get("cwd") == "dir" else root)
    try:
        sim.run()
    finally:
        os.chdir(cwd_old)
    if stats is not None and any(w.get("spell") not in (None, "abs") for w in writers):
        stats.group("probes", "l2_mixed_path_spellings")
    if sim.bypass:
        raise seam.HarnessError(f"seam bypass: {sim.bypass[:3]}")
    outs = [outcome_of(w, a) for w, a in zip(writers, actors)]
    done_installs = [x for x in installs if x.get("done")]
    trace = abstract_trace(abstract, done_installs, outs, writers)

    # I1: at the instant of each install by a call carrying base_hash, the file (if it exists) hashes to base_hash
    for ins in done_installs:
        w = writers[ins["actor"]]
        if w.get("bh") and ins["existed"] and ins["pre"] != w["bh"].strip().lower():
            # A program that does not cooperate (takes no lock) can always slip in between a writer's final re-read and its
            # replace; no code can prevent that and the property does not ask for it.  Excused only in exactly that case: the
            # LATEST change before this install is an editor's write that happened after this writer began its last re-read.
            staged = [op.gidx for op in sim.events if op.actor == ins["actor"] and op.name == "open_c" and op.outcome == "ok"
                      and op.path != target and op.gidx < ins["gidx"]]
            # the re-check read = a read of the target AFTER this writer staged its temp file (the entry read does not count)
            rereads = [op.gidx for op in sim.events if op.actor == ins["actor"] and op.name == "open_r" and op.path == target
                       and (staged[-1] if staged else -1) < op.gidx < ins["gidx"]]
            changes = [(x["gidx"], "install") for x in done_installs if x["gidx"] < ins["gidx"] and x["actor"] != ins["actor"]] + [
                (g_, "editor") for g_ in ext_mods if g_ < ins["gidx"]]
            if changes and rereads:
                last = max(changes)
                if last[1] == "editor" and last[0] > rereads[-1]:
                    sim.probes["uncooperative_edit_after_final_reread_excused"] += 1
                    continue
            V("I1", f"writer {ins['actor']} ({w['entry']}/{w['mode']}) installed its content while the file hashed to "
                    f"{str(ins['pre'])[:12]}, not to its base_hash {w['bh'][:12]}; outcomes={outs}", trace,
              lost_update_shape(sim, target, ins, done_installs, case["init"] is not None))
    # I2: of several writers holding the same base_hash at most one (content-changing) succeeds
    groups: dict = {}
    for i, (w, o) in enumerate(zip(writers, outs)):
        if w.get("bh") and case["init"] is not None and o["status"] == "success" and o.get("hash") != w["bh"]:
            groups.setdefault(w["bh"], []).append(i)
    for bh, ws in groups.items():
        if len(ws) > 1:
            mine = sorted((x for x in done_installs if x["actor"] in ws), key=lambda x: x["gidx"])
            later = [x for x in mine[1:] if x["pre"] != bh.strip().lower()]
            if mine[1:] and not later:
                # a third writer put content hashing to base_hash back in between (ABA): every install satisfied the CAS
                sim.probes["aba_content_restored_between_same_hash_successes"] += 1
                continue
            shape = lost_update_shape(sim, target, later[-1], done_installs, True) if later else "no-install"
            V("I2", f"writers {ws} all held base_hash {bh[:12]} and all returned success; outcomes={outs}", trace, shape)
    # I3: error => net-zero own operations; success => installed exactly the reported text
    for i, (w, a, o) in enumerate(zip(writers, actors, outs)):
        if w["entry"] == "editor":
            continue
        created = [op.path for op in a.ops if op.name == "open_c" and op.outcome == "ok" and op.path != target]
        gone = {op.path for op in a.ops if (op.cls == "unlink" or op.name in ("replace", "rename")) and op.outcome == "ok"}
        left = [p for p in created if p not in gone]
        mine = [x for x in done_installs if x["actor"] == i]
        if o["status"] in ("error", "raised"):
            if mine:
                V("I3.error-installed", f"writer {i} returned {o} after installing content", trace)
            if left:
                V("I3.error-leftover", f"writer {i} returned {o} and left {[p[len(root) + 1:] for p in left]}", trace)
        if o["status"] == "success":
            if not mine:
                V("I3.success-no-install", f"writer {i} returned success without installing", trace)
            elif o.get("hash") and mine[-1].get("post") != o["hash"]:
                V("I3.success-hash", f"writer {i} installed {str(mine[-1].get('post'))[:12]}, reported {o['hash'][:12]}", trace)
    # an existing file keeps its permission bits whatever the mix of successful and failed writers (every install preserves
    # them, every failed call leaves things as they were)
    if case["init"] is not None and not any(o["status"] == "crash" for o in outs):
        try:
            fm = seam.real("lstat")(target).st_mode & 0o777  # the nine permission bits (set-id/sticky are not permission bits)
        except OSError:
            fm = None
        if fm is not None and fm != case.get("fmode", 0o644) & 0o777:
            culprits = [i for i, a in enumerate(actors) if any(op.name in ("chmod", "fchmod") and op.path == target and op.outcome == "ok"
                                                               for op in a.ops)]
            V("I3.mode", f"the target's permission bits changed {oct(case.get('fmode', 0o644))} -> {oct(fm)}; writers that chmod'ed the "
                         f"target path: {culprits}; outcomes={outs}", trace)
    if sim.deadlock:
        V("deadlock", f"writers blocked forever on locks: {[a.name for a in actors if a.outcome is None]}", trace)
    # bounded liveness after a crash (recorded, not asserted)
    wedged = None
    if any(o["status"] == "crash" for o in outs):
        with seam.passthrough():
            try:
                with open(target, "rb") as f:
                    cur = f.read()
            except OSError:
                cur = None
        if cur is not None and text_hash(cur):
            sim2 = seam.Simulation(root, Tape(values=[]), seam.Knobs())
            probe = {"entry": "tool", "mode": "content", "text": docs.gen_doc(Tape(values=[]), "probe"), "bh": text_hash(cur)}
            a2 = sim2.add_actor("probe", make_call(probe, root))
            sim2.run()
            wedged = outcome_of(probe, a2)["status"] != "success"
    log = sim.event_log()
    if stats is not None:
        stats.inc("runs")
        stats.inc("l2_runs")
        stats.inc("yield_points", sim.steps)
        stats.distinct("l2_target_orders", trace)
        stats.distinct("l2_traces", digest([(op.actor, op.name, op.outcome) for op in sim.events]))
        stats.group("l2_outcomes", "/".join(sorted(f"{o['status']}:{o.get('code') or ''}" for o in outs)))
        if len(done_installs) >= 1 and len({a for a, _ in abstract}) > 1:
            stats.inc("l2_nontrivial")
            if any(o.get("code") == "E_HASH" for o in outs):
                stats.sample("l2_run", {"writers": [f"{w['entry']}/{w['mode']}/{'bh' if w.get('bh') else 'nobh'}" for w in writers],
                                        "abstract_order": trace, "schedule_tape": list(tape.values)[:40],
                                        "target_ops": [op.brief(root) for op in sim.events if op.path == target or op.path2 == target
                                                       or op.name == "flock"][:40]}, cap=1)
        for k_, v_ in sim.fault_counts.items():
            stats.group("fault_counts", k_, v_)
        for k_, v_ in sim.probes.items():
            stats.group("probes", k_, v_)
        if wedged is not None:
            stats.group("probes", "wedged_after_crash" if wedged else "clean_write_after_crash_ok")
        if any(o.get("code") == "E_HASH" for o in outs):
            stats.group("probes", "E_HASH_seen")
        # which check produced the E_HASH: entry or re-check (re-check => the actor created a temp file)
        for a, o in zip(actors, outs):
            if o.get("code") == "E_HASH" and any(op.name == "open_c" and op.outcome == "ok" for op in a.ops):
                stats.group("probes", "E_HASH_from_recheck")
    return {"violations": viols, "log": log, "digest": digest(log), "tape": list(tape.values), "ns": list(tape.ns),
            "fired": [{"actor": f["actor"], "at": f["at"], "kind": f["kind"]} for f in sim.fired], "trace": trace}


def lost_update_shape(sim, target, ins, installs, existed_initially) -> str:
    """Abstract shape of an install that violated the CAS: did the victim re-read the target after writing its
    temp file, and did that re-read happen before or after the rival's install (or the file's creation)?"""
    victim = ins["actor"]
    vops = [op for op in sim.events if op.actor == victim and op.gidx < ins["gidx"]]
    tmp_created = [op.gidx for op in vops if op.name == "open_c" and op.outcome == "ok"]
    after_tmp = tmp_created[-1] if tmp_created else -1
    rereads = [op.gidx for op in vops if op.name == "open_r" and op.path == target and op.gidx > after_tmp]
    rivals = [x["gidx"] for x in installs if x["actor"] != victim and x["gidx"] < ins["gidx"]]
    if not rivals:
        return "no-rival-install:" + ("recheck-read=yes" if rereads else "recheck-read=no")
    if not rereads:
        return "recheck-read=no"
    rel = "before" if rereads[-1] < rivals[-1] else "after"
    return f"recheck-read=yes,recheck-{rel}-rival-install,file-{'existed' if existed_initially else 'created-by-rival'}"


def abstract_trace(abstract, installs, outs, writers) -> str:
    """Role-free abstract order of target reads (R) and installs (X) per actor, plus outcomes.
    Actors are renamed in order of first appearance so that symmetric schedules coincide."""
    names: dict = {}
    parts = []
    for aid, ev in abstract:
        if aid not in names:
            names[aid] = "ABCDEF"[len(names)]
        parts.append(names[aid] + ev)
    for i in range(len(writers)):
        if i not in names:
            names[i] = "ABCDEF"[len(names)]
    res = ",".join(f"{names[i]}:{'bh' if writers[i].get('bh') else 'nobh'}:{o['status']}" for i, o in sorted(
        enumerate(outs), key=lambda x: names[x[0]]))
    return " ".join(parts) + " => " + res


# --------------------------------------------------------------------------- #
# L1x / L2x: systematic sweeps of exactly the spaces the property's quantifier names
# --------------------------------------------------------------------------- #

L1X_ALPHABET = [(k, b) for k in ("content", "changes", "normalize", "content_dry") for b in ("none", "current", "stale", "future")] + [
    ("ext_valid", "none"), ("ext_empty", "none"), ("ext_binary", "none"), ("content", "of_empty"),
    ("content_same", "stale"), ("resend", "none")]


# the alphabet the property's quantifier names (4 call kinds x 4 base_hash kinds + external modification to a valid / an empty
# file) is a prefix of the extended one: thorough sweeps the extended alphabet to length 4 and the quantifier's own to length 5
L1X_BASE = 18
assert L1X_ALPHABET[L1X_BASE - 1] == ("ext_empty", "none")


def l1x_count(maxlen: int, a: int | None = None) -> int:
    a = a or len(L1X_ALPHABET)
    return sum(a ** n for n in range(1, maxlen + 1))


def l1x_plan(tier: str) -> list:
    """[(alphabet size, first index, end index)] in the index space of that alphabet size."""
    if tier == "quick":
        return [(len(L1X_ALPHABET), 0, l1x_count(3))]
    return [(len(L1X_ALPHABET), 0, l1x_count(4)), (L1X_BASE, l1x_count(4, L1X_BASE), l1x_count(5, L1X_BASE))]


def l1x_history(index: int, a: int | None = None) -> dict:
    """The index-th history in length-then-lexicographic order over L1X_ALPHABET (all histories up to length 5 of
    {content, changes, normalize, corrections_only, external modification} x base_hash in {none, current, stale, future})."""
    n = 1
    a = a or len(L1X_ALPHABET)
    while index >= a ** n:
        index -= a ** n
        n += 1
    digits = []
    for _ in range(n):
        digits.append(index % a)
        index //= a
    digits.reverse()
    t = Tape(values=[])
    steps = []
    for k, d in enumerate(digits):
        kind, bh = L1X_ALPHABET[d]
        st = {"kind": kind, "bhk": bh}
        mk = f"x{k}{d:x}"
        if kind in ("content", "content_dry", "content_same"):
            st["text"] = f"===DOC===\nMETA:\n  TYPE::TEST\n  VERSION::\"1.0\"\nMARK::{mk}\nK0::v{k}\n===END===\n"
        elif kind == "changes":
            st["changes"] = {"MARK": "c" + mk}
        elif kind == "ext_valid":
            st["text"] = f"===DOC===\nMETA:\n  TYPE::TEST\n  VERSION::\"1.0\"\nMARK::e{mk}\nK0::x -> y\n===END===\n"
        elif kind == "ext_empty":
            st["text"] = ""
        elif kind == "ext_binary":
            st["text"] = None
        steps.append(st)
    init = "===DOC===\nMETA:\n  TYPE::TEST\n  VERSION::\"1.0\"\nMARK::init\nK0::a -> b\n===END===\n"
    return {"layer": "L1", "init": init, "steps": steps, "prop": PROP, "seed": 0, "enumerated": True}


def canon_writers(init: str) -> list:
    h = text_hash(init.encode())

    def doc(m):
        return f"===DOC===\nMETA:\n  TYPE::TEST\n  VERSION::\"1.0\"\nMARK::{m}\nK0::w\n===END===\n"

    return [
        {"entry": "tool", "mode": "content", "text": doc("A"), "bh": h},
        {"entry": "tool", "mode": "changes", "changes": {"MARK": "chgB"}, "bh": h},
        {"entry": "tool", "mode": "normalize", "bh": h},
        {"entry": "atomic", "mode": "content", "text": docs.canonical(doc("D")), "bh": h},
        {"entry": "cli", "mode": "content", "text": doc("E"), "bh": h},
        {"entry": "cli", "mode": "changes", "changes": {"MARK": "chgF"}, "bh": h},
        {"entry": "tool", "mode": "content", "text": doc("G"), "bh": None},
        {"entry": "atomic", "mode": "content", "text": docs.canonical(doc("H")), "bh": None},
        {"entry": "editor", "mode": "stealth", "bh": None},
    ]


L2X_INIT = "===DOC===\nMETA:\n  TYPE::TEST\n  VERSION::\"1.0\"\nMARK::init\nK0::a -> b\n===END===\n"


def l2x_pairs() -> list:
    n = len(canon_writers(L2X_INIT))
    return [(i, j) for i in range(n) for j in range(i, n)]


L2X_CREATORS = [0, 3, 4, 6, 7]  # the writer kinds that can create a file that does not exist yet (content writers)


def l2x_absent_pairs() -> list:
    return [(i, j) for a_, i in enumerate(L2X_CREATORS) for j in L2X_CREATORS[a_:]]


def run_l2x_pair(i: int, j: int, stats: Stats, viols: list, cap: int = 3000, absent: bool = False):
    """ALL interleavings of two writers at the granularity the property names (switch points: each read of the target,
    each lock operation, the replace), by depth-first enumeration of the schedule tape."""
    ws = canon_writers(L2X_INIT)
    wi, wj = copy.deepcopy(ws[i]), copy.deepcopy(ws[j])
    if i == j and wj.get("text"):
        wj["text"] = wj["text"].replace("MARK::", "MARK::twin_")
    if i == j and wj.get("changes"):
        wj["changes"] = {"MARK": "twin_" + str(j)}
    # the second writer names the file differently in four pairs out of five (same file, another spelling of its path)
    cwd_kind = "dir" if (i + j) % 2 else "root"
    wj["spell"] = (["abs", "bare", "dot", "dslash", "baredot"] if cwd_kind == "dir" else ["abs", "rel", "dot", "dslash", "reldot"])[(3 * i + j) % 5]
    prefix: list = []
    n = 0
    while n < cap:
        case = {"layer": "L2", "init": None if absent else L2X_INIT, "writers": [wi, wj], "knobs": {"sched": "enum"}, "tape": {"values": list(prefix)},
                "prop": PROP, "seed": 0, "enumerated": [i, j], "fmode": 0o444 if (i + j) % 2 else 0o644, "cwd": cwd_kind}
        res = run_race(case, stats)
        n += 1
        for v in res["violations"]:
            if len(viols) < 30:
                viols.append({"clause": v["clause"], "signature": v["signature"], "detail": v["detail"], "case": case})
        vals, ns = res["tape"], res["ns"]
        k = len(vals) - 1
        while k >= 0 and vals[k] >= ns[k] - 1:
            k -= 1
        if k < 0:
            stats.inc("l2x_pairs_exhausted" if not absent else "l2x_absent_pairs_exhausted")
            break
        prefix = vals[:k] + [vals[k] + 1]
    else:
        stats.inc("l2x_pairs_capped")
    stats.inc("l2x_schedules", n)
    stats.group("l2x_schedules_per_pair", f"{i}-{j}" + ("-absent" if absent else ""), n)


# --------------------------------------------------------------------------- #
# L3: concurrent calls inside one server process (deterministic asyncio loop)
# --------------------------------------------------------------------------- #


def gen_aio(t: Tape, idx: int) -> dict:
    m = f"a{idx:x}"
    init = docs.canonical(docs.gen_doc(t, m + "i"))
    cur_h = text_hash(init.encode())
    n = 2 + t.choose(3, "a.n")
    reqs = []
    for i in range(n):
        reqs.append({"entry": "tool", "mode": "content", "text": docs.gen_doc(t, f"{m}q{i}"),
                     "bh": t.weighted([(cur_h, 7), (None, 2), (sha_text("stale"), 1)], "a.bh"),
                     "kind": t.weighted([("write", 7), ("dry", 2), ("bad", 1)], "a.kind")})
    # message layer: duplicates (retry after lost reply), delays
    deliveries = []
    for i in range(n):
        deliveries.append({"req": i, "delay": t.pick([0, 0, 1, 5], "a.delay")})
        if t.flag(250, "a.dup"):
            deliveries.append({"req": i, "delay": t.pick([0, 2, 7], "a.ddelay")})
    return {"layer": "L3", "init": init, "reqs": reqs, "deliveries": deliveries, "tape": {"seed": t.choose(1 << 30, "a.tseed")}}


def run_aio(case: dict, stats: Stats | None = None) -> dict:
    import asyncio

    from octave_mcp.mcp.write import WriteTool

    from . import loop as simloop

    root = fsmodel.fresh_root("a")
    fsmodel.build_tree(root, [("d", "sb", 0o755), ("f", TARGET, case["init"].encode(), 0o644)])
    target = os.path.join(root, TARGET)
    tape = _tape_of(case.get("tape"))
    tool = WriteTool()  # one instance shared by all requests, as in the server
    results = []
    order = []
    installs = []
    sim = seam.Simulation(root, Tape(values=[]), seam.Knobs())

    def before_op(sim_, a, op, kind):
        if op.name in ("replace", "rename") and op.path2 == target:
            with seam.real("io.open")(target, "rb") as f:
                installs.append({"pre": text_hash(f.read())})

    def after_op(sim_, a, op):
        if op.name in ("replace", "rename") and op.path2 == target and op.outcome == "ok" and installs:
            with seam.real("io.open")(target, "rb") as f:
                installs[-1]["post"] = sha_bytes(f.read())

    sim.before_op, sim.after_op = before_op, after_op

    async def dispatcher(name, arguments):
        # stand-in for server.handle_call_tool: await tool.execute(**arguments), then serialise
        res = await tool.execute(**arguments)
        return json.dumps(res, indent=2)

    async def client(k, d, loop):
        if d["delay"]:
            await asyncio.sleep(d["delay"])
        req = case["reqs"][d["req"]]
        kw = {"target_path": target, "content": req["text"]}
        if req.get("bh") is not None:
            kw["base_hash"] = req["bh"]
        if req.get("kind") == "dry":
            kw["corrections_only"] = True
        if req.get("kind") == "bad":
            kw["changes"] = {"X": 1}  # content AND changes: E_INPUT
        order.append(k)
        txt = await dispatcher("octave_write", kw)
        results.append((k, d["req"], json.loads(txt)))

    async def main(loop):
        tasks = [loop.create_task(client(k, d, loop), name=f"client-{k}") for k, d in enumerate(case["deliveries"])]
        await asyncio.gather(*tasks)

    def body():
        return simloop.run(tape, main)

    a = sim.add_actor("server", body)
    sim.run()
    if sim.deadlock:
        return {"violations": [{"clause": "deadlock", "signature": "L3.deadlock",
                                "detail": "the server process blocked forever on a lock it already holds through another descriptor "
                                          "(a second request reached flock while the first was suspended inside the locked region)"}],
                "log": [order, "deadlock"], "digest": digest([order, "deadlock"]), "tape": list(tape.values)}
    if a.outcome != "returned":
        raise seam.HarnessError(f"L3 server actor ended with {a.outcome}: {a.exc!r}")
    _, lp = a.result
    viols = []
    outs = {k: outcome_of_result(case["reqs"][r], res) for k, r, res in results}
    shape = " ".join(f"{r}:{outs[k]['status'][0]}{(outs[k].get('code') or '')[:6]}" for k, r, _ in results)

    def V(clause, detail):
        viols.append({"clause": clause, "detail": detail, "signature": f"L3.{clause}"})

    canon = {i: sha_text(docs.canonical(rq["text"])) for i, rq in enumerate(case["reqs"])}
    for ins in installs:
        # every request writes unique content, so the installed bytes identify the request
        owners = [i for i, h in canon.items() if h == ins.get("post")]
        for i in owners[:1]:
            req = case["reqs"][i]
            if req.get("bh") and ins["pre"] != req["bh"]:
                V("I1", f"request {i} installed while file hashed to {str(ins['pre'])[:12]}, base_hash {req['bh'][:12]}")
    # serialisability against the register model: some serial order of the delivered requests explains every result
    cur_h = text_hash(case["init"].encode())
    observed = [(r, outs[k]["status"], outs[k].get("code")) for k, r, _ in sorted(results)]
    with seam.passthrough():
        with open(target, "rb") as f:
            final_h = sha_bytes(f.read())
    delivered = [d["req"] for d in case["deliveries"]]
    explained = False
    n_perm = 0
    for perm in itertools.permutations(range(len(delivered))):
        n_perm += 1
        reg = cur_h
        got = {}
        for k in perm:
            rq = case["reqs"][delivered[k]]
            if rq.get("kind") == "bad":
                got[k] = ("error", "E_INPUT")
            elif rq.get("bh") and rq["bh"] != reg:
                got[k] = ("error", "E_HASH")
            else:
                got[k] = ("success", None)
                if rq.get("kind", "write") == "write":
                    reg = canon[delivered[k]]
        if reg == final_h and all(got[k] == (st, code if st == "error" else None) for k, (r, st, code) in enumerate(observed)):
            explained = True
            break
    if not explained:
        V("serial", f"no serial order of the {len(delivered)} delivered requests explains results {observed} and final hash {final_h[:12]}")
    log = [order, shape, final_h[:16], [op.brief(root) for op in sim.events if op.cls in seam.MUTATING_CLASSES]]
    if stats is not None:
        stats.inc("runs")
        stats.inc("l3_runs")
        stats.inc("l3_loop_steps", lp.steps)
        stats.inc("l3_loop_choices", lp.choices)
        stats.inc("l3_virtual_seconds", int(lp.time()))
        stats.distinct("l3_shapes", repr((order, shape)))
        if lp.choices:
            stats.inc("l3_nontrivial")
        if len(delivered) > len(case["reqs"]):
            stats.group("probes", "l3_duplicate_delivery")
    return {"violations": viols, "log": log, "digest": digest(log), "tape": list(tape.values)}


# --------------------------------------------------------------------------- #
# units, replay, minimisation, entry
# --------------------------------------------------------------------------- #


def run_case(case: dict, stats: Stats | None = None) -> dict:
    if case["layer"] == "L1":
        return run_history(case, stats)
    if case["layer"] == "L2":
        return run_race(case, stats)
    if case["layer"] == "L3":
        return run_aio(case, stats)
    raise ValueError(case["layer"])


def gen_case(layer: str, vseed: int, j: int, tier: str) -> dict:
    seed = derive_seed(vseed, PROP, layer, j)
    t = Tape(seed)
    if layer == "L1":
        c = gen_history(t, j, 5 if tier == "quick" else 8)
    elif layer == "L2":
        c = gen_race(t, j)
    else:
        c = gen_aio(t, j)
    c["prop"] = PROP
    c["seed"] = seed
    return c


def units(tier: str, vseed: int) -> list:
    if tier == "quick":
        plan = [("L1", 64, 250), ("L2", 96, 200), ("L3", 16, 150)]
    else:
        plan = [("L1", 1600, 500), ("L2", 3200, 400), ("L3", 320, 300)]
    out = []
    for (i, j) in l2x_pairs():
        out.append({"layer": "L2x", "i": i, "j": j, "start": 0, "count": 1})
    for (i, j) in l2x_absent_pairs():
        out.append({"layer": "L2x", "i": i, "j": j, "start": 0, "count": 1, "absent": True})
    for i in range(len(l1f_cases())):
        out.append({"layer": "L1f", "idx": i, "start": i, "count": 1})
    step = 400 if tier == "quick" else 4000
    for a_, first, end in l1x_plan(tier):
        for lo in range(first, end, step):
            out.append({"layer": "L1x", "lo": lo, "hi": min(lo + step, end), "start": lo, "count": step, "alpha": a_})
    for layer, n, per in plan:
        for i in range(n):
            out.append({"layer": layer, "start": i * per, "count": per, "vseed": vseed, "tier": tier})
    # interleave layers so that a wall-clock cap still leaves every layer covered
    from .runner import interleave

    return interleave(out, lambda u: u["layer"])


def run_unit(unit: dict):
    stats = Stats()
    viols = []
    if unit.get("kind") == "det":
        for j in range(unit["lo"], unit["hi"]):
            for layer in ("L1", "L2", "L3"):
                res = run_case(gen_case(layer, unit["vseed"], j, "quick"))
                stats.sample("det", (f"{layer}{j}", res["digest"] + ":" + ",".join(v["clause"] for v in res["violations"])),
                             cap=10 ** 9)
        return stats, viols
    if unit["layer"] == "L2x":
        run_l2x_pair(unit["i"], unit["j"], stats, viols, absent=bool(unit.get("absent")))
        return stats, viols
    if unit["layer"] == "L1f":
        run_l1f(unit["idx"], stats, viols)
        return stats, viols
    if unit["layer"] == "L1x":
        for idx in range(unit["lo"], unit["hi"]):
            case = l1x_history(idx, unit.get("alpha"))
            res = run_case(case, stats)
            stats.inc("l1x_histories")
            for v in res["violations"]:
                if len(viols) < 30:
                    viols.append({"clause": v["clause"], "signature": v["signature"], "detail": v["detail"], "case": case})
        return stats, viols
    for j in range(unit["start"], unit["start"] + unit["count"]):
        case = gen_case(unit["layer"], unit["vseed"], j, unit["tier"])
        res = run_case(case, stats)
        for v in res["violations"]:
            if len(viols) < 30:
                c = dict(case)
                if "tape" in res:
                    c["tape"] = {"values": res["tape"]}
                if res.get("fired") is not None and case.get("fault_cfg"):
                    c["faults"] = res["fired"]
                    c["fault_cfg"] = None
                    c.pop("ftape", None)
                viols.append({"clause": v["clause"], "signature": v["signature"], "detail": v["detail"], "case": c})
            stats.sample("violation_trace", res.get("trace") or v["signature"], cap=2)
    return stats, viols


def minimise(case: dict, clause: str, sig: str, budget: int = 300) -> dict:
    runs = 0

    def fails(c):
        nonlocal runs
        runs += 1
        try:
            res = run_case(c)
        except Exception:
            return False
        return any(v["signature"] == sig for v in res["violations"]) or (
            case["layer"] != "L2" and any(v["clause"] == clause for v in res["violations"]))

    cur = copy.deepcopy(case)
    if not fails(cur):
        return case
    changed = True
    while changed and runs < budget:
        changed = False
        if cur["layer"] == "L1":
            for i in range(len(cur["steps"])):
                c = copy.deepcopy(cur)
                del c["steps"][i]
                if c["steps"] and fails(c):
                    cur, changed = c, True
                    break
        elif cur["layer"] == "L2":
            for i in range(len(cur["writers"])):
                if len(cur["writers"]) > 2:
                    c = copy.deepcopy(cur)
                    del c["writers"][i]
                    c["faults"] = [f for f in c.get("faults") or [] if f["actor"] != i]
                    if fails(c):
                        cur, changed = c, True
                        break
            vals = cur.get("tape", {}).get("values") or []
            for i in range(len(vals)):
                if vals[i] and runs < budget:
                    c = copy.deepcopy(cur)
                    c["tape"]["values"][i] = 0
                    if fails(c):
                        cur, changed = c, True
            while cur.get("tape", {}).get("values") and cur["tape"]["values"][-1] == 0:
                cur["tape"]["values"].pop()
            for i in range(len(cur.get("faults") or [])):
                c = copy.deepcopy(cur)
                del c["faults"][i]
                if fails(c):
                    cur, changed = c, True
                    break
        else:
            for i in range(len(cur["deliveries"])):
                if len(cur["deliveries"]) > 1:
                    c = copy.deepcopy(cur)
                    del c["deliveries"][i]
                    if fails(c):
                        cur, changed = c, True
                        break
    cur["minimise_runs"] = runs
    return cur


def determinism_digests(n: int, seed: int) -> list:
    from . import runner

    seam.install()
    seam.install_audit()
    us = [{"kind": "det", "lo": i, "hi": min(i + 10, n), "vseed": seed} for i in range(0, n, 10)]
    stats, viols, errors, done = runner.run_units("sim.c17", us, progress=False)
    if errors:
        raise RuntimeError(errors[0])
    got = dict(stats.samples.get("det", []))
    return [got.get(f"{layer}{i}") for i in range(n) for layer in ("L1", "L2", "L3")]


ASSUMPTIONS = [
    "writer 'processes' are real threads released one at a time at interposed file operations; the schedule comes from the seed only",
    "the CAS invariant is evaluated by the simulator itself at the instant it executes each os.replace onto the target (it is the only thing running)",
    "hashes compared are the tools' own notion: SHA-256 of the text read in universal-newline mode; generated documents contain no CR",
    "a file that does not exist at the install instant may be created by a call carrying base_hash (documented contract, ADR-0004)",
    "two spellings of the same digest (upper case, trailing newline) only have to behave consistently (the property does not say how a digest is spelled)",
    "fcntl.flock is modelled as a blocking point: an actor that would block is not runnable until the holder unlocks, closes the descriptor or dies",
    "MCP server dispatch is a stand-in: await tool.execute(**args); json.dumps(result) -- the real Server object cannot be built under mcp 2.2.0 in this sandbox",
]
COMPONENTS = {
    "real": ["octave_mcp.mcp.write.WriteTool.execute", "octave_mcp.core.file_ops.atomic_write_octave",
             "octave_mcp.cli.main write (click, in-process)", "kernel file system (tmpfs), incl. rename atomicity"],
    "stub": ["process scheduling (baton scheduler)", "file objects on sandbox paths (SimFile)", "fcntl.flock blocking (modelled)",
             "asyncio event loop (SimLoop, virtual time)", "MCP dispatcher/transport (10-line stand-in)", "client message layer (delay, duplicate, reorder)"],
}


def main(tier: str, seed: int, args) -> int:
    import time

    from . import runner

    seam.install()
    seam.install_audit()
    t0 = time.time()
    us = units(tier, seed)
    if args.units:
        us = us[: args.units]
    stats, viols, errors, done = runner.run_units("sim.c17", us, wall_cap=600 if tier == "quick" else 3300)
    wall = time.time() - t0
    c = stats.c
    runs = c.get("runs", 0)
    nontrivial = len(stats.sets.get("l1_history_shapes", ())) + len(stats.sets.get("l2_target_orders", ())) + len(
        stats.sets.get("l3_shapes", ()))
    coverage = {
        "evaluations": runs,
        "distinct_nontrivial": nontrivial,
        "rule": "one evaluation = one sequential history (L1), one scheduled multi-writer run (L2) or one concurrent in-process batch (L3); "
                "distinct_nontrivial = distinct L1 history shapes (step kind/base_hash kind/result per step) + distinct L2 abstract orders of "
                "target reads and installs across writers with outcomes + distinct L3 (delivery order, result) shapes",
        "samples": (stats.samples.get("l2_run", [])[:1] + sorted(stats.sets.get("l2_target_orders", ()))[-3:]
                    + sorted(stats.sets.get("l1_history_shapes", ()), key=len)[-2:]),
        "units_done": done, "units_planned": len(us),
        "runs_per_hour": int(runs / wall * 3600) if wall else 0,
        "l1_histories": c.get("l1_histories", 0), "l1_steps": c.get("l1_steps_total", 0),
        "l1_distinct_history_shapes": len(stats.sets.get("l1_history_shapes", ())),
        "l1_step_results": dict(sorted(stats.groups.get("l1_steps", {}).items())),
        "l1x_exhaustive_histories": {"alphabet": [f"{k}/{b}" for k, b in L1X_ALPHABET],
                                     "quantifier_alphabet": [f"{k}/{b}" for k, b in L1X_ALPHABET[:L1X_BASE]],
                                     "swept": [{"alphabet_size": a_, "history_lengths": "1..3" if tier == "quick" else ("1..4" if a_ != L1X_BASE else "5"),
                                                "histories_in_space": end - first} for a_, first, end in l1x_plan(tier)],
                                     "histories": c.get("l1x_histories", 0), "total_in_space": sum(e - f for _, f, e in l1x_plan(tier)),
                                     "complete": c.get("l1x_histories", 0) == sum(e - f for _, f, e in l1x_plan(tier))},
        "l1f_fault_sweep_under_mismatching_base_hash": {
            "what": "one call (6 call kinds) carrying a base_hash that does not match (stale / future / digest of the empty text; 'current' as control), "
                    "after nothing / an external rewrite / an undecodable rewrite; EVERY operation the call performs fails in turn with every errno "
                    "its class admits, one-shot, sticky for the whole process, and sticky for that operation on that path (e.g. every read of the target)",
            "cases": len(l1f_cases()), "reference_runs": c.get("l1f_reference_runs", 0), "faulted_runs": c.get("l1f_faulted_runs", 0),
            "fault_at_operation_class": dict(stats.groups.get("l1f_fault_at_class", {}))},
        "l2x_exhaustive_two_writer_interleavings": {
            "switch_points": "before each open-for-read of the target, each flock operation and each replace onto the target",
            "writer_kinds": 9, "pairs": len(l2x_pairs()), "pairs_exhausted": c.get("l2x_pairs_exhausted", 0),
            "pairs_of_creators_of_a_file_that_does_not_exist_yet": len(l2x_absent_pairs()),
            "creator_pairs_exhausted": c.get("l2x_absent_pairs_exhausted", 0),
            "pairs_capped": c.get("l2x_pairs_capped", 0), "schedules": c.get("l2x_schedules", 0),
            "schedules_per_pair": dict(stats.groups.get("l2x_schedules_per_pair", {}))},
        "l2_runs": c.get("l2_runs", 0), "l2_yield_points": c.get("yield_points", 0),
        "l2_distinct_target_orders": len(stats.sets.get("l2_target_orders", ())),
        "l2_distinct_full_traces": len(stats.sets.get("l2_traces", ())),
        "l2_runs_with_real_interleaving": c.get("l2_nontrivial", 0),
        "l2_outcomes": dict(stats.groups.get("l2_outcomes", {})),
        "l3_runs": c.get("l3_runs", 0), "l3_loop_steps": c.get("l3_loop_steps", 0), "l3_schedule_choices": c.get("l3_loop_choices", 0),
        "l3_virtual_seconds": c.get("l3_virtual_seconds", 0), "l3_distinct_shapes": len(stats.sets.get("l3_shapes", ())),
        "simulated_time": "only L3 has timers (client delays): virtual seconds reported there; L1/L2 reach is measured in yield points",
        "fault_counts_fired": dict(stats.groups.get("fault_counts", {})),
        "probes": dict(stats.groups.get("probes", {})),
        "exhaustive": False,
        "components": COMPONENTS,
    }
    return runner.finish(PROP, sys.modules[__name__], tier, seed, stats, viols, errors, wall, coverage, ASSUMPTIONS)
