"""Shared helpers for the property checks: driving tool coroutines, the CLI
without CliRunner, environment sanity."""

from __future__ import annotations

import hashlib
import os
import sys
import threading

REPO = os.environ.get("VERIF_REPO", "/repo")
REPO_SRC = os.environ.get("VERIF_REPO_SRC") or os.path.join(REPO, "src")


def assert_repo_code():
    """The code under test must be the working tree's (or the scratch copy named by VERIF_REPO_SRC)."""
    import octave_mcp

    got = os.path.realpath(os.path.dirname(octave_mcp.__file__))
    want = os.path.realpath(os.path.join(REPO_SRC, "octave_mcp"))
    if got != want:
        raise RuntimeError(f"octave_mcp imported from {got}, expected {want}")


def drive(coro):
    """Run a tool coroutine to completion the way a server process of its own would: on a private deterministic event loop
    (SimLoop: virtual time; run_in_executor / asyncio.to_thread execute inline in this thread, so file operations stay
    attributed to the calling actor).  Tool bodies have no await today, in which case this is a single loop step."""
    from .loop import SimLoop
    from .tape import Tape

    loop = SimLoop(Tape(values=[]))
    try:
        return loop.run_until_complete(coro)
    finally:
        loop.close()


from .seam import HarnessError  # noqa: E402


class AwaitedError(HarnessError):
    pass


def sha_text(s: str) -> str:
    return hashlib.sha256(s.encode("utf-8")).hexdigest()


def sha_bytes(b: bytes) -> str:
    return hashlib.sha256(b).hexdigest()


# ---- click without CliRunner (CliRunner swaps sys.stdout process-wide, which
# ---- is not safe when several actors are inside the CLI at once)

_echo_tls = threading.local()
_click_patched = False


class _StreamProxy:
    """sys.stdout / sys.stderr as seen by code under test: inside run_cli (per THREAD) whatever is written is captured line by
    line -- click.echo is not the only way a command can report (ClickException.show(), print, sys.stderr.write) --, outside
    it goes to the real stream."""

    def __init__(self, real, kind):
        self._real = real
        self._kind = kind

    def write(self, s):
        buf = getattr(_echo_tls, "buf", None)
        if buf is None:
            return self._real.write(s)
        if isinstance(s, (bytes, bytearray)):
            s = bytes(s).decode("utf-8", "replace")
        pend = getattr(_echo_tls, "pend", None)
        if pend is None:
            pend = _echo_tls.pend = {"out": "", "err": ""}
        text = pend[self._kind] + s
        *lines, rest = text.split("\n")
        for ln in lines:
            buf.append((self._kind, ln))
        pend[self._kind] = rest
        return len(s)

    def writelines(self, lines):
        for ln in lines:
            self.write(ln)

    def flush(self):
        if getattr(_echo_tls, "buf", None) is None:
            self._real.flush()

    def isatty(self):
        return False

    def writable(self):
        return True

    def readable(self):
        return False

    @property
    def encoding(self):
        return "utf-8"

    @property
    def errors(self):
        return "strict"

    @property
    def closed(self):
        return False

    def fileno(self):
        return self._real.fileno()

    def __getattr__(self, name):
        if name == "buffer" and getattr(_echo_tls, "buf", None) is not None:
            raise AttributeError(name)  # code under test must not reach around the capture
        return getattr(self._real, name)


def _flush_pending(buf):
    pend = getattr(_echo_tls, "pend", None)
    if pend:
        for kind in ("out", "err"):
            if pend[kind]:
                buf.append((kind, pend[kind]))
        _echo_tls.pend = None


def _patch_click():
    global _click_patched
    if _click_patched:
        return
    import importlib

    import click

    real_echo = click.echo

    def echo(message=None, file=None, nl=True, err=False, color=None):
        buf = getattr(_echo_tls, "buf", None)
        if buf is None:
            return real_echo(message, file=file, nl=nl, err=err, color=color)
        if file is not None and not isinstance(file, _StreamProxy) and file not in (sys.stdout, sys.stderr, sys.__stdout__, sys.__stderr__):
            return real_echo(message, file=file, nl=nl, err=err, color=color)  # a file the command opened itself
        if isinstance(file, _StreamProxy):
            err = file._kind == "err"
        if isinstance(message, (bytes, bytearray)):
            message = bytes(message).decode("utf-8", "replace")
        buf.append(("err" if err else "out", "" if message is None else str(message)))

    # every click module holds its own reference (`from .utils import echo`): ClickException.show() uses click.exceptions.echo
    click.echo = echo
    for modname in ("click.utils", "click.exceptions", "click.core", "click.termui", "click.decorators", "click.testing"):
        try:
            mod = importlib.import_module(modname)
        except ImportError:
            continue
        if getattr(mod, "echo", None) is real_echo:
            mod.echo = echo
    if not isinstance(sys.stdout, _StreamProxy):
        sys.stdout = _StreamProxy(sys.stdout, "out")
    if not isinstance(sys.stderr, _StreamProxy):
        sys.stderr = _StreamProxy(sys.stderr, "err")
    _click_patched = True


def run_cli(args: list[str], stdin_text: str | None = None) -> dict:
    """Invoke the real click command tree in-process.  Returns {"exit": code, "out": [...]}"""
    _patch_click()
    import click
    import io as _io

    from octave_mcp.cli.main import cli

    _echo_tls.buf = buf = []
    old_stdin = sys.stdin
    if stdin_text is not None:
        sys.stdin = _io.StringIO(stdin_text)
    try:
        try:
            cli.main(args=list(args), prog_name="octave", standalone_mode=False)
            code = 0
        except SystemExit as e:
            code = e.code if isinstance(e.code, int) else (0 if e.code is None else 1)
        except click.exceptions.Exit as e:
            code = e.exit_code
        except click.ClickException as e:
            buf.append(("err", f"{type(e).__name__}: {e.format_message()}"))
            code = e.exit_code
        except click.Abort:
            code = 1
    finally:
        _flush_pending(buf)
        _echo_tls.buf = None
        sys.stdin = old_stdin
    return {"exit": code, "out": buf}


class ForkError(HarnessError):
    pass


def _die_with_parent(parent_pid: int):
    """A forked helper must never outlive the process that waits for it (an orphan that hangs keeps pipes open for ever)."""
    try:
        import ctypes
        import signal

        ctypes.CDLL(None, use_errno=True).prctl(1, signal.SIGKILL, 0, 0, 0)  # PR_SET_PDEATHSIG
        if os.getppid() != parent_pid:  # the parent died between fork and prctl
            os._exit(4)
    except Exception:  # noqa: BLE001
        pass


def in_fork(fn, timeout: float = 120.0):
    """Run fn() in a forked child of THIS interpreter; returns its JSON-able result (exceptions become ForkError)."""
    import json
    import select
    import signal
    import time

    r, w = os.pipe()
    parent_pid = os.getpid()
    pid = os.fork()
    if pid == 0:
        code = 0
        try:
            os.close(r)
            _die_with_parent(parent_pid)
            try:
                out = {"ok": fn()}
            except BaseException as e:  # noqa: BLE001
                import traceback

                out = {"err": f"{type(e).__name__}: {e}", "tb": traceback.format_exc()[-2000:]}
            data = json.dumps(out).encode()
            view = memoryview(data)
            while view:
                n = os.write(w, view)
                view = view[n:]
            os.close(w)
        except BaseException:  # noqa: BLE001
            code = 3
        finally:
            os._exit(code)
    os.close(w)
    chunks = []
    deadline = time.time() + timeout
    try:
        while True:
            left = deadline - time.time()
            if left <= 0:
                os.kill(pid, signal.SIGKILL)
                raise ForkError("forked child timed out")
            rl, _, _ = select.select([r], [], [], min(left, 5.0))
            if not rl:
                continue
            b = os.read(r, 1 << 16)
            if not b:
                break
            chunks.append(b)
    finally:
        os.close(r)
        try:
            os.waitpid(pid, 0)
        except ChildProcessError:
            pass
    if not chunks:
        raise ForkError("forked child produced no output")
    out = json.loads(b"".join(chunks))
    if "err" in out:
        raise ForkError(out["err"] + "\n" + out.get("tb", ""))
    return out["ok"]
