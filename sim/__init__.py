"""Deterministic simulation with fault injection for elevanaltd/octave-mcp.

See /verif/DESIGN.md.  Layout:

  tape.py     one integer decides everything: the recorded choice tape
  seam.py     storage seam (os.*, open), SimFile, baton scheduler, audit hook
  fsmodel.py  sandbox trees, snapshots, power-loss durability model
  runner.py   parallel batches, evidence, replay files, known findings
  loop.py     deterministic asyncio loop
  docs.py     document corpus / generators
  c16.py c17.py c19.py c06.py   the four property checks
"""
