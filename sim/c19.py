"""C19 -- tools cannot be steered outside the intended files.

The storage seam is used as a *recorder* (single actor, no faults, no schedule):
every call runs against a generated file-system layout, the seam and the audit
hook record what was actually touched, and an independent lexical classifier
says which paths had to be refused.  See DESIGN.md section 6.
"""

from __future__ import annotations

import hashlib
import itertools
import json
import os
import stat as _stat
import sys

from . import docs, fsmodel, seam
from .common import drive, run_cli, sha_bytes
from .runner import Stats, digest
from .tape import Tape, derive_seed

PROP = "C19"
LEVEL = "exploration"

DOC = '===DOC===\nMETA:\n  TYPE::TEST\n  VERSION::"1.0"\nA::1\n===END===\n'
NEWDOC = '===DOC===\nMETA:\n  TYPE::TEST\n  VERSION::"1.0"\nA::2\nB::written\n===END===\n'
SECRET = b"===SECRET===\nKEY::hunter2\n===END===\n"
GOOD_STD = b'===STD===\nMETA:\n  TYPE::STANDARD\n  VERSION::"1.0"\n===END===\n'
BAD_STD = b'===STD===\nMETA:\n  TYPE::TAMPERED\n  VERSION::"6.6"\n===END===\n'
ALLOWED_EXT = (".oct.md", ".octave", ".md")
CONTENT_OPS = {"open_r", "open_c", "mkdir", "replace", "rename", "unlink", "remove", "rmdir", "chmod", "fchmod", "truncate",
               "ftruncate", "link", "symlink", "write", "read"}

GOOD_DIGEST = hashlib.sha256(GOOD_STD).hexdigest()
# a digest that shares the 16-hex-digit file-name prefix with GOOD_DIGEST but is not the file's hash
SAME_PREFIX_DIGEST = GOOD_DIGEST[:-1] + ("0" if GOOD_DIGEST[-1] != "0" else "1")
BAD_DIGEST = hashlib.sha256(b"what the bad file claims to be").hexdigest()  # cache file <BAD[:16]>.oct.md holds BAD_STD


# --------------------------------------------------------------------------- #
# layouts
# --------------------------------------------------------------------------- #


def build_layout(root: str, variant: dict):
    """Sandbox (sb), outside tree (out), home, project dir.  ``variant`` picks link placement / target style."""
    absl = variant.get("abs_links", False)

    def tgt(rel_from_sb: str, relative: str):
        return os.path.join(root, "sb", rel_from_sb) if absl else relative

    spec = [
        ("d", "sb", 0o755), ("d", "sb/docs", 0o755), ("d", "sb/dir", 0o755), ("d", "sb/dir/deep", 0o755),
        ("f", "sb/docs/a.oct.md", DOC.encode(), 0o644), ("f", "sb/docs/b.md", DOC.encode(), 0o644),
        ("f", "sb/docs/notes.txt", b"plain notes\n", 0o644), ("f", "sb/dir/c.octave", DOC.encode(), 0o644),
        ("f", "sb/top.oct.md", DOC.encode(), 0o644),
        ("d", "out", 0o755), ("d", "out/secretdir", 0o755),
        ("f", "out/secret.oct.md", SECRET, 0o600), ("f", "out/secret.txt", b"top secret\n", 0o600),
        ("f", "out/secretdir/s.oct.md", SECRET, 0o600),
        ("l", "sb/ln_dir_in", tgt("dir", "dir")),
        ("l", "sb/ln_file_in.oct.md", tgt("docs/a.oct.md", "docs/a.oct.md")),
        ("l", "sb/ln_dir_out", os.path.join(root, "out/secretdir") if absl else "../out/secretdir"),
        ("l", "sb/ln_file_out.oct.md", os.path.join(root, "out/secret.oct.md") if absl else "../out/secret.oct.md"),
        ("l", "sb/dangling.oct.md", tgt("missing.oct.md", "missing.oct.md")),
        ("l", "sb/dangling_out.oct.md", os.path.join(root, "out/newfile.oct.md") if absl else "../out/newfile.oct.md"),
        ("l", "sb/dangling_dir", tgt("nowhere", "nowhere")),
        ("l", "sb/chain1", "chain2"), ("l", "sb/chain2", "dir"),
        ("l", "sb/loop", "loop"), ("l", "sb/loop.oct.md", "loop.oct.md"),
        ("l", "sb/docs/ln_up", ".."), ("l", "sb/docs/ln_out", "../../out"),
        ("l", "sb/docs/dangling2.md", "gone.md"),
        # link names that change under Unicode normalisation / compatibility folding (full-width letters, decomposed accent):
        # a validator that normalises the string first examines a name that does not exist and never sees the link
        ("l", "sb/\uff44\uff4f\uff43\uff53", os.path.join(root, "out/secretdir") if absl else "../out/secretdir"),
        ("l", "sb/cafe\u0301", os.path.join(root, "out/secretdir") if absl else "../out/secretdir"),
        ("l", "sb/\u212bdir", "dir"), ("l", "sb/\ufb01le.oct.md", os.path.join(root, "out/secret.oct.md") if absl else "../out/secret.oct.md"),
        # link names that a string SANITISER changes (separator conversion, strip, case folding, variable expansion, trailing
        # dots, percent-decoding): a layer that tidies the string before validating examines a name that does not exist
        # (or a harmless one) while the file system follows the real link
        ("l", "sb/up\\load", os.path.join(root, "out/secretdir") if absl else "../out/secretdir"),
        ("l", "sb/notes\\copy.oct.md", os.path.join(root, "out/secret.oct.md") if absl else "../out/secret.oct.md"),
        ("l", "sb/ lnsp", os.path.join(root, "out/secretdir") if absl else "../out/secretdir"),
        ("l", "sb/lnsp2 ", os.path.join(root, "out/secretdir") if absl else "../out/secretdir"),
        ("l", "sb/LnCase", os.path.join(root, "out/secretdir") if absl else "../out/secretdir"),
        ("l", "sb/$OVX", os.path.join(root, "out/secretdir") if absl else "../out/secretdir"), ("d", "sb/plainx", 0o755),
        ("l", "sb/lnd.", os.path.join(root, "out/secretdir") if absl else "../out/secretdir"),
        ("l", "sb/%41bc", os.path.join(root, "out/secretdir") if absl else "../out/secretdir"),
        ("l", "sb/ lnf.oct.md", os.path.join(root, "out/secret.oct.md") if absl else "../out/secret.oct.md"),
        # home with a standards cache
        ("d", "home/.octave/standards", 0o755),
        ("f", f"home/.octave/standards/{GOOD_DIGEST[:16]}.oct.md", GOOD_STD, 0o644),
        ("f", f"home/.octave/standards/{BAD_DIGEST[:16]}.oct.md", BAD_STD, 0o644),
        ("f", "home/.octave/standards/default.oct.md", GOOD_STD, 0o644),
        ("f", "home/.octave/secret.oct.md", SECRET, 0o600),
        # links below HOME: an argument that gets '~' expanded AND canonicalised before validation walks through these
        ("l", "home/ln_out", os.path.join(root, "out/secretdir") if absl else "../out/secretdir"),
        ("l", "home/ln_file.oct.md", os.path.join(root, "out/secret.oct.md") if absl else "../out/secret.oct.md"),
        ("d", "home/plain", 0o755),
        # a project directory with schema directories (cwd for schema-name runs)
        ("d", "proj/specs/schemas/sub", 0o755), ("d", "proj/src/octave_mcp/resources/specs/schemas", 0o755),
        ("f", "proj/specs/schemas/a.oct.md", _schema_text("A"), 0o644),
        ("f", "proj/specs/schemas/ab.oct.md", _schema_text("AB"), 0o644),
        ("f", "proj/specs/schemas/Z9.oct.md", _schema_text("Z9"), 0o644),
        ("f", "proj/specs/schemas/sub/x.oct.md", SECRET, 0o644),
        ("f", "proj/specs/secret.oct.md", SECRET, 0o644), ("f", "proj/specs/a.oct.md", SECRET, 0o644),
        ("f", "proj/specs/B.oct.md", SECRET, 0o644), ("f", "proj/src/octave_mcp/resources/specs/z.oct.md", SECRET, 0o644),
        ("f", "proj/secret.oct.md", SECRET, 0o644),
        ("f", "proj/src/octave_mcp/resources/specs/schemas/b_2.oct.md", _schema_text("B_2"), 0o644),
        # vocabulary base for source URIs
        ("d", "sb/vocab/inner", 0o755), ("f", "sb/vocab/v.oct.md", DOC.encode(), 0o644),
        ("f", "sb/vocab/inner/w.oct.md", DOC.encode(), 0o644),
        ("l", "sb/vocab/ln_out", "../../out"), ("l", "sb/vocab/ln_secret.oct.md", "../../out/secret.oct.md"),
        ("l", "sb/vocab/ln_in.oct.md", "inner/w.oct.md"), ("l", "sb/vocab/ln_sibling", "../docs"),
        # siblings whose NAMES merely start with the base directory's name (string-prefix containment checks fall for these)
        ("d", "sb/vocab-private", 0o755), ("f", "sb/vocab-private/secret.oct.md", SECRET, 0o600),
        ("d", "sb/vocab2", 0o755), ("f", "sb/vocab2/x.oct.md", SECRET, 0o600), ("f", "sb/vocabulary.oct.md", SECRET, 0o600),
        ("l", "sb/vocab/ln_priv", "../vocab-private"),
        # symlink LOOPS: a non-strict resolver (Path.resolve) gives up at a loop and keeps the REST of the path lexically, so a
        # following '..' cancels the loop and later links stay unresolved; 'peel*' hide that behind further links
        ("l", "sb/vocab/loop", "loop"), ("l", "sb/vocab/loopA", "loopB"), ("l", "sb/vocab/loopB", "loopA"),
        ("l", "sb/vocab/peel1", "loop/../ln_out"), ("l", "sb/vocab/peel2", "loopA/../peel1"),
        ("l", "sb/vocab/inner/loop", "loop"),
        ("d", "proj/specs/schemas-private", 0o755), ("f", "proj/specs/schemas-private/x.oct.md", SECRET, 0o644),
        ("d", "home/.octave/standards-old", 0o755), ("f", f"home/.octave/standards-old/{GOOD_DIGEST[:16]}.oct.md", BAD_STD, 0o644),
    ]
    from .c16 import hydration_fixture

    hs, hv = hydration_fixture()
    spec += [("f", "sb/hsrc/source.oct.md", hs, 0o644), ("f", "sb/hsrc/vocabulary.oct.md", hv, 0o644)]
    fsmodel.build_tree(root, spec)


def _schema_text(name: str) -> bytes:
    return (f'==={name}===\nMETA:\n  TYPE::SCHEMA\n  VERSION::"1.0"\n\nPOLICY:\n  VERSION::"1.0"\n  UNKNOWN_FIELDS::WARN\n\n'
            f'FIELDS:\n  NAME::["example"∧REQ]\n===END===\n').encode()


DIR_SEGS = ["docs", "dir", "dir/deep", "newdir", ".", "..", "ln_dir_in", "ln_dir_out", "dangling_dir", "chain1", "loop", "loop/..",
            "docs/ln_up", "docs/ln_out", "", "vocab", "~", "$HOME", "${HOME}", "~root", "~/ln_out", "~/plain", "~/plain/..", "$OVHOME/ln_out", "\uff44\uff4f\uff43\uff53", "cafe\u0301", "\u212bdir", "\uff0e\uff0e", "\u2024\u2024",
            "up\\load", " lnsp", "lnsp2 ", "LnCase", "$OVX", "lnd.", "%41bc"]
FINAL_SEGS = ["a.oct.md", "new.oct.md", "new.octave", "new.md", "b.md", "c.octave", "top.oct.md", "new.txt", "notes.txt",
              "new.oct.md.bak", "new.tar.md", "new.oct.MD", "NEW.OCT.MD", "new.md.", "new", "new.oct.md/", "ln_file_in.oct.md",
              "ln_file_out.oct.md", "dangling.oct.md", "dangling_out.oct.md", "dangling2.md", "loop.oct.md", "", "a\x00b.oct.md",
              "L" * 300 + ".oct.md", ".md", "new.oct.md ", "new.Md", "new.json", "..", ".", "secret.oct.md", "s.oct.md",
              "new.m\u0501", "new.oct.md\u200b", "new.\uff2d\uff24", "new.md\n", "new.md\t", "x..md", ".oct.md", "new.octave.", "new.OCTAVE",
              "new.oct.md.", "new.md/.", "new.md/..", "new.txt/../new.md", "new.md\\", "new.oct", "new.octave.txt", "new.mdx", "newmd",
              "new.oct.md~", "new.md;x.txt", "new.md%00.txt", "caf\u00e9.md", "cafe\u0301.md",
              "~.oct.md", "ln_file.oct.md", " new.oct.md", "new.oct.md\r", "$OVHOME.oct.md", "note.oct.\uff4d\uff44", "note.\uff4d\uff44", "note\uff0emd", "note.m\u217e", "\ufb01le.oct.md", "note.md\u0301", "note.oct\u2024md",
              "notes\\copy.oct.md", " lnf.oct.md"]


def gen_path(t: Tape) -> dict:
    depth = t.weighted([(0, 4), (1, 5), (2, 3), (3, 1)], "p.depth")
    segs = [t.pick(DIR_SEGS, "p.seg") for _ in range(depth)]
    final = t.pick(FINAL_SEGS, "p.final")
    rel = "/".join(segs + [final])
    if t.flag(80, "p.dslash"):
        rel = rel.replace("/", "//", 1)
    absolute = bool(t.choose(2, "p.abs"))
    if rel.startswith("/"):
        # an empty first segment would make a 'relative' string absolute on the REAL machine: always anchor it in the sandbox
        absolute = True
    return {"rel": rel, "absolute": absolute}


# --------------------------------------------------------------------------- #
# the independent classifier
# --------------------------------------------------------------------------- #


def classify_path(path_str: str, cwd: str) -> dict:
    """Lexical walk with lstat on the INITIAL layout.  Does not use any of the code's validators.
    Returns {"must_refuse": bool, "why": [...], "abs": lexical absolute path}"""
    why = []
    if "\x00" in path_str:
        return {"must_refuse": False, "why": ["nul"], "abs": None}
    absolute = path_str if path_str.startswith("/") else cwd.rstrip("/") + "/" + path_str
    comps = [c for c in absolute.split("/") if c not in ("", ".")]
    if any(c == ".." for c in path_str.split("/")):
        why.append("dotdot")
    # symlink in any component (walk the lexical path; the kernel follows earlier links for us)
    cur = ""
    lst = seam.real("lstat") if seam._real else os.lstat
    for c in comps:
        if c == "..":
            break  # already refused; do not try to interpret
        cur = cur + "/" + c
        try:
            st = lst(cur)
        except OSError:
            break
        if _stat.S_ISLNK(st.st_mode):
            try:
                (seam.real("stat") if seam._real else os.stat)(cur)
                live = "live"
            except OSError:
                live = "dangling"
            pos = "final" if c is comps[-1] and cur.count("/") == len(comps) else "intermediate"
            why.append(f"symlink:{cur}:{live}:{pos}")
            break
    final = comps[-1] if comps else ""
    if not final.endswith(ALLOWED_EXT):
        why.append("extension")
    return {"must_refuse": bool(why), "why": why, "abs": "/" + "/".join(comps)}


# --------------------------------------------------------------------------- #
# calls
# --------------------------------------------------------------------------- #

PATH_CALLS = [("write_content", 7), ("validate_file", 5), ("atomic", 3), ("write_dry", 1), ("write_changes", 1),
              ("write_normalize", 1), ("validate_path_fn", 1), ("cli_write", 1), ("cli_write_changes", 1), ("cli_normalize", 1), ("cli_seal", 1), ("cli_hydrate", 1)]


def make_path_call(kind: str, p: str, root: str):
    if kind.startswith("write_"):
        from octave_mcp.mcp.write import WriteTool

        kw = {"target_path": p}
        if kind in ("write_content", "write_dry"):
            kw["content"] = NEWDOC
        if kind == "write_changes":
            kw["changes"] = {"A": 3}
        if kind == "write_dry":
            kw["corrections_only"] = True
        tool = WriteTool()
        return lambda: drive(tool.execute(**kw))
    if kind == "validate_file":
        from octave_mcp.mcp.validate import ValidateTool

        tool = ValidateTool()
        return lambda: drive(tool.execute(file_path=p, schema="META"))
    if kind == "atomic":
        from octave_mcp.core.file_ops import atomic_write_octave

        return lambda: atomic_write_octave(p, NEWDOC, None)
    if kind == "validate_path_fn":
        from octave_mcp.core.file_ops import validate_octave_path

        return lambda: validate_octave_path(p)
    if kind == "cli_write":
        return lambda: run_cli(["write", p, "--content", NEWDOC])
    if kind == "cli_write_changes":
        return lambda: run_cli(["write", p, "--changes", '{"A": 5}'])
    if kind in ("cli_normalize", "cli_seal"):
        return lambda: run_cli([kind[4:], os.path.join(root, "sb/top.oct.md"), "-o", p])
    if kind == "cli_hydrate":
        return lambda: run_cli(["hydrate", os.path.join(root, "sb/hsrc/source.oct.md"), "--mapping",
                                "@test/vocabulary=" + os.path.join(root, "sb/hsrc/vocabulary.oct.md"), "-o", p])
    raise ValueError(kind)


def refused(kind: str, actor) -> bool:
    if actor.outcome == "raised":
        return True
    r = actor.result
    if kind == "validate_path_fn":
        return r[0] is False
    if kind.startswith("cli"):
        return r["exit"] != 0
    return isinstance(r, dict) and r.get("status") == "error"


# --------------------------------------------------------------------------- #
# one case = one layout + one call
# --------------------------------------------------------------------------- #


class Recorder:
    """Runs one call as the single actor of a Simulation and returns the trace."""

    def __init__(self, root: str):
        self.root = root

    def run(self, fn, cwd: str | None = None, home: str | None = None):
        sim = seam.Simulation(self.root, Tape(values=[]), seam.Knobs(step_cap=10 ** 8), record_unscoped=True)
        sim.claims_outside = True
        sim._has_links = True
        resolved = {}

        def before_op(sim_, a, op, kind):
            # real location of what this operation is about to touch (state at this instant)
            try:
                if op.name in ("open_c", "mkdir", "replace", "rename", "unlink", "remove", "rmdir", "symlink", "link"):
                    # these act on the directory entry: resolve the parent, keep the name
                    par, name = os.path.split(op.path.rstrip("/") or "/")
                    resolved[op.gidx] = os.path.join(os.path.realpath(par), name)
                    if op.name == "open_c" and not (op.detail or 0) & os.O_NOFOLLOW:
                        resolved[op.gidx] = os.path.realpath(op.path)
                else:
                    resolved[op.gidx] = os.path.realpath(op.path)
                if op.path2 and op.name != "symlink":
                    par, name = os.path.split(op.path2)
                    resolved[(op.gidx, 2)] = os.path.join(os.path.realpath(par), name)
            except (OSError, ValueError):
                resolved[op.gidx] = op.path

        sim.before_op = before_op
        old_cwd = os.getcwd()
        old_home = os.environ.get("HOME")
        a = sim.add_actor("call", fn)
        try:
            if cwd:
                os.chdir(cwd)
            if home:
                os.environ["HOME"] = home
            sim.run()
        finally:
            os.chdir(old_cwd)
            if old_home is None:
                os.environ.pop("HOME", None)
            else:
                os.environ["HOME"] = old_home
        if sim.bypass:
            raise seam.HarnessError(f"seam bypass: {sim.bypass[:3]}")
        return sim, a, resolved


def effective_ops(sim, resolved):
    """[(opname, lexical path, resolved path, outcome)] of content-touching operations that took effect."""
    out = []
    for op in sim.events:
        if op.name in CONTENT_OPS and op.outcome == "ok":
            out.append((op.name, op.path, resolved.get(op.gidx, op.path), op.outcome))
            if op.path2 and op.name in ("replace", "rename", "link"):
                out.append((op.name + ".dst", op.path2, resolved.get((op.gidx, 2), op.path2), op.outcome))
    return out


def under(p: str, d: str) -> bool:
    d = d.rstrip("/")
    return p == d or p.startswith(d + "/")


_layout_state: dict = {}


def ensure_layout(variant: dict) -> tuple[str, dict]:
    """Build (or reuse if untouched) the layout for this variant in this worker; returns (root, snapshot)."""
    key = json.dumps(variant, sort_keys=True)
    st = _layout_state.get("cur")
    if st and st["key"] == key and st["pid"] == os.getpid() and not st["dirty"]:
        return st["root"], st["snap"]
    root = fsmodel.fresh_root("c19")
    build_layout(root, variant)
    # freeze mtimes so that "unchanged" includes them
    snap = snapshot_m(root)
    _layout_state["cur"] = {"key": key, "root": root, "snap": snap, "dirty": False, "pid": os.getpid()}
    return root, snap


def snapshot_m(root: str) -> dict:
    """snapshot + mtime_ns of regular files (outside secrets must not even be touched)."""
    snap = fsmodel.snapshot(root)
    out = {}
    lst = seam.real("lstat")
    for rel, node in snap.items():
        if node[0] == "f":
            out[rel] = node[:3] + (lst(os.path.join(root, rel)).st_mtime_ns,)
        else:
            out[rel] = node
    return out


def mark_dirty():
    if "cur" in _layout_state:
        _layout_state["cur"]["dirty"] = True


def diff_m(a: dict, b: dict) -> list:
    out = []
    for k in sorted(set(a) | set(b)):
        if a.get(k) != b.get(k):
            x, y = a.get(k), b.get(k)
            out.append(f"{'+' if x is None else '-' if y is None else '~'} {k}")
    return out


def run_path_case(case: dict, stats: Stats | None = None) -> dict:
    variant = case["variant"]
    root, snap0 = ensure_layout(variant)
    sb = os.path.join(root, "sb")
    p = case["path"]
    path_str = (sb + "/" + p["rel"]) if p["absolute"] else p["rel"]
    cwd = sb
    kind = case["call"]
    cl = classify_path(path_str, cwd)
    if path_str == "" and kind in ("cli_normalize", "cli_seal", "cli_hydrate"):
        # `-o ""` means "no output file": the command prints to stdout; no path was handed over as a file to write
        cl = {"must_refuse": False, "why": [], "abs": None}
    rec = Recorder(root)
    # HOME (and a variable of our own) point INTO the run root: an argument that gets '~' / '$VAR' expanded lands where we look
    os.environ["OVHOME"] = os.path.join(root, "home")
    os.environ["OVX"] = "plainx"  # '$OVX' is ALSO the literal name of a link (see the layout)
    sim, a, resolved = rec.run(make_path_call(kind, path_str, root), cwd=cwd, home=os.path.join(root, "home"))
    snap1 = snapshot_m(root)
    d = diff_m(snap0, snap1)
    if d:
        mark_dirty()
    viols = []
    ref = refused(kind, a)
    eff = effective_ops(sim, resolved)
    allowed_inputs = {os.path.join(root, "sb/top.oct.md")} if kind in ("cli_normalize", "cli_seal") else set()
    if kind == "cli_hydrate":
        allowed_inputs = {os.path.join(root, "sb/hsrc/source.oct.md"), os.path.join(root, "sb/hsrc/vocabulary.oct.md")}
    out_root = os.path.join(root, "out")
    home_root = os.path.join(root, "home")

    def V(clause, detail):
        why = ",".join(w.split(":")[0] for w in cl["why"]) or "accepted"
        viols.append({"clause": clause, "detail": f"{kind}({path_str!r}) [{why}]: {detail}".replace(root, "<R>"),
                      "signature": f"{clause}|{_callsite(kind)}|{_whysig(cl, root)}"})

    # ---- R1: paths that must be refused
    if cl["must_refuse"]:
        if not ref:
            V("R1.accepted", f"classifier says refuse ({cl['why']}), call reported {_brief(kind, a)}")
        touched = [e for e in eff if e[1] not in allowed_inputs and e[0] not in ("read",)]
        touched = [e for e in touched if not (e[0] in ("open_r",) and e[1] in allowed_inputs)]
        if touched:
            V("R1.touched", f"classifier says refuse ({cl['why']}) but these operations took effect: "
                            f"{[(n, _rel(lp, root), _rel(rp, root)) for n, lp, rp, _ in touched[:4]]}; call reported {_brief(kind, a)}")
        if d:
            V("R1.changed", f"classifier says refuse ({cl['why']}) but the tree changed: {d[:5]}")
    # ---- R2: confinement, for every call
    if sim.outside_mutations:
        if path_str.startswith("/") and not path_str.startswith(root + "/"):
            raise seam.HarnessError(f"generated path {path_str!r} is outside the run root")
        V("R2.outside-root", f"tried to change files outside every sandbox root (refused by the simulator): {sim.outside_mutations[:3]}")
    for n, lp, rp, _ in eff:
        if under(rp, out_root) or under(rp, home_root):
            V("R2.outside", f"operation {n} took effect on {_rel(rp, root)} (via {_rel(lp, root)}), outside the sandbox")
            break
    outside_changed = [x for x in d if x[2:].startswith("out") or x[2:].startswith("home") or x[2:].startswith("proj")]
    if outside_changed:
        V("R2.outside-changed", f"entries outside the sandbox changed (bytes/mtime/existence): {outside_changed[:5]}")
    if not cl["must_refuse"] and cl["abs"]:
        tgt = cl["abs"]
        tdir = os.path.dirname(tgt)

        def own_transient(rp_):
            """A name in the target's own directory that did NOT exist before the call: the call's staging file, or a lock
            file it creates and removes (r7e).  Entries that were there before -- other documents, other people's files -- are
            never the call's to touch.  (Pre-existing *.tmp names stay admitted: reclaiming an orphaned staging file is legal.)"""
            if os.path.dirname(rp_) != tdir:
                return False
            return rp_.endswith(".tmp") or os.path.relpath(rp_, root) not in snap0

        for n, lp, rp, _ in eff:
            if n in ("open_r", "read"):
                if rp != tgt and rp != tdir and lp not in allowed_inputs and not own_transient(rp):
                    V("R2.read-other", f"accepted call read {_rel(rp, root)}, which is not the target {_rel(tgt, root)}")
                    break
            elif n in ("write", "fchmod", "ftruncate"):
                continue  # fd-based: judged at the open
            else:
                ok = rp == tgt or own_transient(rp) or (n == "mkdir" and under(tgt, rp))
                if n in ("replace.dst", "rename.dst"):
                    ok = rp == tgt
                if not ok:
                    V("R2.mutate-other", f"accepted call performed {n} on {_rel(rp, root)} (target {_rel(tgt, root)})")
                    break
        if kind in ("validate_file", "validate_path_fn", "write_dry") and d:
            V("R2.readonly-call-changed", f"read-only call changed the tree: {d[:5]}")
        extra = [x for x in d if not (x[2:] == os.path.relpath(tgt, root) or under(tgt, os.path.join(root, x[2:])))]
        if extra and not outside_changed:
            V("R2.changed-other", f"accepted call changed entries other than the target and its missing ancestors: {extra[:5]}")
    log = [kind, path_str.replace(root, "<R>"), [w.replace(root, "<R>") for w in cl["why"]], ref, [(n, _rel(lp, root)) for n, lp, _, _ in eff], d]
    if stats is not None:
        stats.inc("runs")
        stats.inc("path_calls")
        stats.inc("yield_points", sim.steps)
        stats.group("path_verdicts", f"{'must-refuse' if cl['must_refuse'] else 'open'}:{'refused' if ref else 'accepted'}")
        for w in cl["why"]:
            stats.group("refusal_reasons", w.split(":")[0])
        key = (kind, tuple(sorted(w.split(":")[0] for w in cl["why"])), ref, tuple(sorted({n for n, _, _, _ in eff})))
        stats.distinct("path_behaviours", repr(key))
        stats.distinct("path_strings", path_str.replace(root, "<R>"))
        if cl["must_refuse"]:
            stats.inc("nontrivial_path_calls")
            if len(cl["why"]) == 1 and cl["why"][0].startswith("symlink"):
                stats.sample("path_case", {"call": kind, "path": path_str.replace(root, "<R>"), "classifier": [w.replace(root, "<R>") for w in cl["why"]],
                                           "refused": ref, "result": _brief(kind, a).replace(root, "<R>"),
                                           "operations_recorded": [op.brief(root)[2:4] + [op.outcome] for op in sim.events][:25]}, cap=2)
        if any(w.startswith("symlink") for w in cl["why"]):
            stats.group("probes", "symlink_component_" + _linkkind(cl, root))
    return {"violations": viols, "log": log, "digest": digest(log)}


PSEQ_PATHS = ["docs/a.oct.md", "dir/c.octave", "docs/new.oct.md", "dir/deep/x.md"]
PSEQ_CALLS = ["write_content", "validate_file", "atomic", "write_changes", "cli_write", "cli_write_changes"]
PSEQ_MUTATIONS = ["final_to_outlink", "dir_to_outlink", "final_to_dangling"]


def run_path_seq_case(case: dict, stats: Stats | None = None) -> dict:
    """call(P); the layout changes BETWEEN the calls (a component of P becomes a symlink); call(P) again -- in one process,
    so a validator that remembers 'P was fine' is exposed.  Runs in a fork (replayable history)."""
    from .common import in_fork

    def child():
        _layout_state.pop("cur", None)
        root, _ = ensure_layout(case["variant"])
        sb = os.path.join(root, "sb")
        viols, logs = [], []
        for k, st in enumerate(case["steps"]):
            if st.get("mutate"):
                with seam.passthrough():
                    _mutate_layout(sb, root, case["rel"], st["mutate"])
                _layout_state["cur"]["snap"] = snapshot_m(root)
                _layout_state["cur"]["dirty"] = False
            sub = {"variant": case["variant"], "path": {"rel": case["rel"], "absolute": case["absolute"]}, "call": st["call"], "kind": "path"}
            res = run_path_case(sub, None)
            for v in res["violations"]:
                v["detail"] = f"step {k} ({st['call']}" + (f" after {st['mutate']}" if st.get("mutate") else "") + "): " + v["detail"]
                if st.get("mutate"):
                    v["signature"] += "|after-layout-change"
            viols += res["violations"]
            logs.append(res["log"])
            _layout_state["cur"]["snap"] = snapshot_m(root)
            _layout_state["cur"]["dirty"] = False
        for v in viols:
            v["detail"] = v["detail"].replace(root, "<R>")
        return {"violations": viols, "log": json.loads(json.dumps(logs).replace(root, "<R>"))}

    out = in_fork(child, timeout=300)
    if stats is not None:
        stats.inc("runs")
        stats.inc("path_sequences")
        stats.inc("path_calls", len(case["steps"]))
        stats.distinct("path_seq_shapes", repr((case["rel"], [(s_["call"], s_.get("mutate")) for s_ in case["steps"]])))
    return {"violations": out["violations"], "log": out["log"], "digest": digest(out["log"])}


def _mutate_layout(sb, root, rel, what):
    full = os.path.join(sb, rel)
    if what == "final_to_outlink":
        if os.path.lexists(full):
            os.unlink(full)
        os.symlink(os.path.join(root, "out", "secret.oct.md"), full)
    elif what == "final_to_dangling":
        if os.path.lexists(full):
            os.unlink(full)
        os.symlink(os.path.join(root, "out", "not-there-yet.oct.md"), full)
    elif what == "dir_to_outlink":
        first = os.path.join(sb, rel.split("/")[0])
        import shutil

        shutil.rmtree(first)
        os.symlink(os.path.join(root, "out", "secretdir"), first)
    else:
        raise ValueError(what)


def _linkkind(cl, root):
    for w in cl["why"]:
        if w.startswith("symlink:"):
            return os.path.basename(w.split(":")[1]).split(".")[0]
    return "?"


def _whysig(cl, root):
    parts = []
    for w in cl["why"]:
        if w.startswith("symlink:"):
            _, link, live, pos = w.rsplit(":", 3)[0].split(":", 1)[0], *w.split(":")[1:]
            parts.append(f"symlink:{live}:{pos}")
        else:
            parts.append(w)
    return "+".join(parts) or "accepted"


def _callsite(kind):
    if kind.startswith("write_"):
        return "octave_write"
    if kind == "validate_file":
        return "octave_validate"
    if kind in ("atomic", "validate_path_fn"):
        return "file_ops"
    return "cli"


def _rel(p, root):
    return p.replace(root, "<R>") if isinstance(p, str) else p


def _brief(kind, a):
    if a.outcome == "raised":
        return f"raised {type(a.exc).__name__}"
    r = a.result
    if kind == "validate_path_fn":
        return repr(r)
    if kind.startswith("cli"):
        return f"exit {r['exit']} {[m for _, m in r['out']][:1]}"
    return f"status={r.get('status')} errors={str(r.get('errors') or r.get('error'))[:160]}"


# --------------------------------------------------------------------------- #
# schema names, frozen references, source URIs
# --------------------------------------------------------------------------- #

NAME_ALPHABET = "ABZabz019_./-"
NAME_EXTRA = ["\n", "\\", "é", " ", "\x00", "%", "~", ":"]


def allowed_schema_dirs(cwd: str, home: str) -> list[str]:
    """Independent statement of where a schema name may select a file."""
    import octave_mcp

    pkg = os.path.dirname(os.path.realpath(octave_mcp.__file__))
    return [os.path.join(pkg, "resources", "specs", "schemas"), os.path.join(pkg, "schemas", "builtin"),
            os.path.realpath(os.path.join(cwd, "src", "octave_mcp", "resources", "specs", "schemas")),
            os.path.realpath(os.path.join(cwd, "specs", "schemas")),
            os.path.realpath(os.path.join(home, ".octave", "standards"))]


def opened_files(sim, resolved, root):
    """Real paths of every file opened during the call: in-scope (seam events) and out-of-scope (pass-through record)."""
    out = []
    for op in sim.events:
        if op.name in ("open_r", "open_c") and op.outcome == "ok":
            out.append(resolved.get(op.gidx, op.path))
    for aid, name, path, path2 in sim.unscoped:
        if name.startswith("open") and path:
            try:
                out.append(os.path.realpath(path))
            except (OSError, ValueError):
                out.append(path)
    return out


_control_cache: dict = {}


def _control_opened(key, root, cwd, home, fn_factory) -> set:
    """Files the entry point opens REGARDLESS of the argument (one-time initialisation such as importlib.metadata look-ups,
    lazily imported modules): measured with a benign control argument, run twice (the first run also warms the process up).
    They are not 'selected by' the argument and are subtracted before judging."""
    k = (os.getpid(), key)
    if k in _control_cache:
        return _control_cache[k]
    got = set()
    for _ in range(2):
        sim, a, resolved = Recorder(root).run(fn_factory("ZZ_CONTROL_NAME_THAT_DOES_NOT_EXIST"), cwd=cwd, home=home)
        got = set(opened_files(sim, resolved, root))
    _control_cache[k] = got
    return got


def _schema_fn(via, name, root):
    def fn():
        if via == "loader":
            from octave_mcp.schemas.loader import load_schema_by_name

            r = load_schema_by_name(name)
            return {"loaded": None if r is None else r.name}
        if via == "validate":
            from octave_mcp.mcp.validate import ValidateTool

            return drive(ValidateTool().execute(content=DOC, schema=name))
        if via == "write":
            from octave_mcp.mcp.write import WriteTool

            return drive(WriteTool().execute(target_path=os.path.join(root, "sb/docs/a.oct.md"), content=NEWDOC, schema=name,
                                             corrections_only=True))
        if via == "cli_validate":
            return run_cli(["validate", os.path.join(root, "sb/docs/a.oct.md"), "--schema", name])
        raise ValueError(via)

    return fn


def run_schema_case(case: dict, stats: Stats | None = None) -> dict:
    """A SEQUENCE of schema-name look-ups served by one process that may change its working directory in between (a
    resolver may remember earlier answers), executed in a fork of this worker so that a replay sees the same history."""
    from .common import in_fork

    steps = case.get("steps") or [{"name": case["name"], "via": case["via"], "cwd": case.get("cwd", "proj")}]

    def child():
        viols, logs, opened_any = [], [], []
        _layout_state.pop("cur", None)
        for k, st in enumerate(steps):
            res = _run_schema_step({"variant": case["variant"], **st})
            for v in res["violations"]:
                v["detail"] = f"step {k} of {[(s_['name'], s_['cwd']) for s_ in steps]}: " + v["detail"]
                if k:
                    v["signature"] += "|after-earlier-lookup"
            viols += res["violations"]
            logs.append(res["log"])
        root = _layout_state["cur"]["root"]
        for v in viols:
            v["detail"] = v["detail"].replace(root, "<R>")
        return {"violations": viols, "log": json.loads(json.dumps(logs).replace(root, "<R>"))}

    out = in_fork(child, timeout=300)
    if stats is not None:
        stats.inc("runs")
        stats.inc("schema_sequences")
        stats.inc("schema_calls", len(steps))
        for lg in out["log"]:
            if lg[2]:
                stats.inc("schema_calls_that_opened_a_file")
                stats.distinct("schema_files_opened", repr(sorted(lg[2])))
            stats.distinct("schema_names", lg[1])
        if len(steps) > 1 and len({s_["cwd"] for s_ in steps}) > 1:
            stats.inc("schema_sequences_with_cwd_change")
    return {"violations": out["violations"], "log": out["log"], "digest": digest(out["log"])}


def _run_schema_step(case: dict) -> dict:
    root, snap0 = ensure_layout(case["variant"])
    cwd = os.path.join(root, case.get("cwd", "proj"))
    home = os.path.join(root, "home")
    name = case["name"]
    via = case["via"]

    fn = _schema_fn(via, name, root)
    control = _control_opened(("schema", via, case.get("cwd", "proj")), root, cwd, home, fn_factory=lambda nm: _schema_fn(via, nm, root))
    sim, a, resolved = Recorder(root).run(fn, cwd=cwd, home=home)
    snap1 = snapshot_m(root)
    d = diff_m(snap0, snap1)
    if d:
        mark_dirty()
    viols = []
    allowed = allowed_schema_dirs(cwd, home)
    inputs = {os.path.join(root, "sb/docs/a.oct.md")}
    opened = [p for p in opened_files(sim, resolved, root) if p not in inputs and p not in control]
    bad = [p for p in opened if not any(under(p, dd) for dd in allowed) and not p.endswith((".py", ".pyc"))]
    if bad:
        viols.append({"clause": "R3", "signature": f"R3|{via}",
                      "detail": f"schema={name!r} via {via}: opened {[_rel(p, root) for p in bad[:4]]}, outside the schema directories"})
    if d:
        viols.append({"clause": "R3.changed", "signature": f"R3.changed|{via}", "detail": f"schema={name!r} via {via}: tree changed {d[:4]}"})
    if a.outcome == "raised" and via == "loader":
        pass  # raising is allowed for the loader (None or exception both refuse)
    log = [via, name, [_rel(p, root) for p in opened], _loaded(a), case.get("cwd")]
    if "cur" in _layout_state:
        _layout_state["cur"]["snap"] = snapshot_m(root)
        _layout_state["cur"]["dirty"] = False
    return {"violations": viols, "log": log, "digest": digest(log)}


def _loaded(a):
    if a.outcome == "raised":
        return f"raised {type(a.exc).__name__}"
    r = a.result
    if isinstance(r, dict):
        return r.get("loaded") or r.get("validation_status") or r.get("exit")
    return None


def run_schema_sweep(case: dict, stats: Stats | None = None) -> dict:
    """Exhaustive: every string over NAME_ALPHABET up to length ``maxlen`` (chunked), through load_schema_by_name,
    in ONE recorded actor (cheap: most are rejected by the name pattern)."""
    root, snap0 = ensure_layout(case["variant"])
    cwd = os.path.join(root, "proj")
    home = os.path.join(root, "home")
    alphabet = case["alphabet"]
    names = []
    for n in range(1, case["maxlen"] + 1):
        for tup in itertools.product(alphabet, repeat=n):
            names.append("".join(tup))
    names = names[case["lo"]: case["hi"]]
    per_name = {}

    def fn():
        from octave_mcp.schemas.loader import load_schema_by_name

        s = seam.current_actor().sim
        for nm in names:
            n0 = len(s.events)
            u0 = len(s.unscoped)
            try:
                r = load_schema_by_name(nm)
                res = None if r is None else r.name
            except Exception as e:  # noqa: BLE001
                res = f"raised {type(e).__name__}"
            if len(s.events) > n0 or len(s.unscoped) > u0:
                per_name[nm] = (n0, u0, res)
        return len(names)

    sim, a, resolved = Recorder(root).run(fn, cwd=cwd, home=home)
    if a.outcome != "returned":
        raise seam.HarnessError(f"schema sweep actor {a.outcome}: {a.exc!r}")
    allowed = allowed_schema_dirs(cwd, home)
    viols = []
    opened_by = {}
    events = sim.events
    bounds = sorted((v[0], v[1], k) for k, v in per_name.items())
    for i, (n0, u0, nm) in enumerate(bounds):
        n1 = bounds[i + 1][0] if i + 1 < len(bounds) else len(events)
        u1 = bounds[i + 1][1] if i + 1 < len(bounds) else len(sim.unscoped)
        files = [resolved.get(op.gidx, op.path) for op in events[n0:n1] if op.name in ("open_r", "open_c") and op.outcome == "ok"]
        for _, oname, path, _ in sim.unscoped[u0:u1]:
            if oname.startswith("open") and path:
                files.append(os.path.realpath(path))
        if files:
            opened_by[nm] = files
            bad = [p for p in files if not any(under(p, dd) for dd in allowed)]
            if bad:
                viols.append({"clause": "R3", "signature": "R3|loader-sweep",
                              "detail": f"schema name {nm!r} opened {[_rel(p, root) for p in bad[:3]]}, outside the schema directories"})
    snap1 = snapshot_m(root)
    if diff_m(snap0, snap1):
        mark_dirty()
        viols.append({"clause": "R3.changed", "signature": "R3.changed|loader-sweep", "detail": f"tree changed {diff_m(snap0, snap1)[:4]}"})
    log = [case["lo"], case["hi"], sorted((k, [_rel(p, root) for p in v]) for k, v in opened_by.items())]
    if stats is not None:
        stats.inc("runs")
        stats.inc("schema_sweep_names", len(names))
        stats.inc("schema_sweep_names_that_opened_a_file", len(opened_by))
        for k in opened_by:
            stats.distinct("schema_sweep_hits", k)
    return {"violations": viols[:5], "log": log, "digest": digest(log)}


FROZEN_REFS = None


def frozen_refs(root: str) -> list:
    g, s, b = GOOD_DIGEST, SAME_PREFIX_DIGEST, BAD_DIGEST
    return [
        ("good", f"frozen@sha256:{g}"), ("good-upper", f"frozen@sha256:{g.upper()}"),
        ("same-prefix-wrong-tail", f"frozen@sha256:{s}"), ("file-with-wrong-bytes", f"frozen@sha256:{b}"),
        ("short", f"frozen@sha256:{g[:63]}"), ("long", f"frozen@sha256:{g}0"), ("prefix16-only", f"frozen@sha256:{g[:16]}"),
        ("nonhex", f"frozen@sha256:{'z' * 64}"), ("newline", f"frozen@sha256:{g}\n"), ("space", f"frozen@sha256: {g}"),
        ("traversal", "frozen@sha256:../../../out/secret"), ("traversal64", "frozen@sha256:" + ("../" * 21) + "x"),
        ("abs", f"frozen@sha256:{root}/out/secret.oct.md"), ("slash-in-hex", f"frozen@sha256:{g[:30]}/../{g[35:]}"),
        ("latest", "latest"), ("empty", "frozen@sha256:"), ("nul", f"frozen@sha256:{g[:32]}\x00{g[33:]}"),
        ("other-algo", f"frozen@md5:{g[:32]}"), ("unicode-digits", "frozen@sha256:" + "１" * 64),
        ("secret-name", "frozen@sha256:secret"), ("missing", "frozen@sha256:" + hashlib.sha256(b"not cached").hexdigest()),
    ]


def run_frozen_case(case: dict, stats: Stats | None = None) -> dict:
    """A SEQUENCE of frozen references served by one process (a resolver may keep state between calls), executed in a fork of
    this worker so that no earlier case can influence it and a replay sees exactly the same process history."""
    from .common import in_fork

    def child():
        viols, logs = [], []
        _layout_state.pop("cur", None)
        for k, step in enumerate(case["steps"]):
            sub = {"variant": case["variant"], "ref": step["ref"], "via": step["via"], "tamper": step.get("tamper")}
            res = _run_frozen_step(sub, None, first=(k == 0))
            for v in res["violations"]:
                v["detail"] = f"step {k} of {[s_['ref'][0] + ('/' + s_['tamper'] if s_.get('tamper') else '') for s_ in case['steps']]}: " + v["detail"]
                v["signature"] = v["signature"] + (f"|after:{case['steps'][k - 1]['ref'][0]}" if k else "")
            viols += res["violations"]
            logs.append(res["log"])
        root = _layout_state["cur"]["root"]
        for v in viols:
            v["detail"] = v["detail"].replace(root, "<R>")
        return {"violations": viols, "log": json.loads(json.dumps(logs).replace(root, "<R>"))}

    out = in_fork(child, timeout=300)
    if stats is not None:
        stats.inc("runs")
        stats.inc("frozen_sequences")
        stats.inc("frozen_calls", len(case["steps"]))
        for lg in out["log"]:
            stats.group("frozen_outcomes", f"{lg[1]}{'+' + str(lg[2]) if lg[2] else ''}:{'resolved' if lg[3] else 'refused'}")
        stats.distinct("frozen_behaviours", repr([(lg[0], lg[1], lg[2], bool(lg[3])) for lg in out["log"]]))
    return {"violations": out["violations"], "log": out["log"], "digest": digest(out["log"])}


def _run_frozen_step(case: dict, stats, first: bool) -> dict:
    root, snap0 = ensure_layout(case["variant"])
    home = os.path.join(root, "home")
    cache = os.path.realpath(os.path.join(home, ".octave", "standards"))
    label, ref = case["ref"]
    ref = ref.replace("<R>", root)
    via = case["via"]
    if case.get("tamper"):
        # cache corruption between calls: the good file no longer holds the bytes its name promises.
        # 'stealth' keeps size and mtime (BAD_STD has the same length), so a stat signature cannot tell
        gp = os.path.join(cache, f"{GOOD_DIGEST[:16]}.oct.md")
        with seam.passthrough():
            st_ = os.stat(gp)
            with open(gp, "wb") as f:
                f.write(BAD_STD)
            if case["tamper"] == "stealth":
                os.utime(gp, ns=(st_.st_atime_ns, st_.st_mtime_ns))
        snap0 = snapshot_m(root)

    def fn():
        if via == "resolve":
            from octave_mcp.core.hydrator import resolve_hermetic_standard

            return {"path": str(resolve_hermetic_standard(ref))}
        if via == "resolve_cache_dir":
            from pathlib import Path

            from octave_mcp.core.hydrator import resolve_hermetic_standard

            return {"path": str(resolve_hermetic_standard(ref, Path(cache)))}
        from octave_mcp.mcp.write import WriteTool

        return drive(WriteTool().execute(target_path=os.path.join(root, "sb/docs/a.oct.md"), content=NEWDOC, schema=ref,
                                         corrections_only=True))

    def control_factory(_nm):
        cref = "frozen@sha256:" + "0" * 64

        def cfn():
            if via == "resolve":
                from octave_mcp.core.hydrator import resolve_hermetic_standard

                try:
                    return {"path": str(resolve_hermetic_standard(cref))}
                except Exception:  # noqa: BLE001
                    return {}
            if via == "resolve_cache_dir":
                from pathlib import Path

                from octave_mcp.core.hydrator import resolve_hermetic_standard

                try:
                    return {"path": str(resolve_hermetic_standard(cref, Path(cache)))}
                except Exception:  # noqa: BLE001
                    return {}
            from octave_mcp.mcp.write import WriteTool

            return drive(WriteTool().execute(target_path=os.path.join(root, "sb/docs/a.oct.md"), content=NEWDOC, schema=cref,
                                             corrections_only=True))

        return cfn

    control = _control_opened(("frozen", via), root, os.path.join(root, "sb"), home, control_factory)
    sim, a, resolved = Recorder(root).run(fn, cwd=os.path.join(root, "sb"), home=home)
    snap1 = snapshot_m(root)
    d = diff_m(snap0, snap1)
    if d:
        mark_dirty()
    viols = []

    def V(clause, detail):
        viols.append({"clause": clause, "signature": f"{clause}|{via}|{label}{'+tampered' if case.get('tamper') else ''}",
                      "detail": f"{via}({ref.replace(root, '<R>')!r}): {detail}"})

    inputs = {os.path.join(root, "sb/docs/a.oct.md")}
    opened = [p for p in opened_files(sim, resolved, root) if p not in inputs and p not in control]
    stray = [p for p in opened if not under(p, cache)]
    if stray:
        V("R4.outside", f"opened {[_rel(p, root) for p in stray[:3]]}, outside the standards cache")
    m = None
    import re

    mm = re.fullmatch(r"frozen@sha256:([0-9a-fA-F]{64})", ref)
    want = mm.group(1).lower() if mm else None
    used_path = None
    if a.outcome == "returned":
        r = a.result
        if via != "write":
            used_path = r["path"]
        elif r.get("validation_status") in ("VALIDATED", "INVALID") and ref != "latest":
            # the tool used *some* schema text for this reference: it must be the cache file with that digest
            cand = [p for p in opened if under(p, cache)]
            used_path = cand[-1] if cand else "<unknown>"
    if used_path is not None and ref != "latest":
        if want is None:
            V("R4.malformed-resolved", f"a malformed reference resolved to {_rel(used_path, root)}")
        else:
            try:
                with seam.passthrough():
                    with open(used_path, "rb") as f:
                        got = hashlib.sha256(f.read()).hexdigest()
            except OSError as e:
                got = f"unreadable {e}"
            if got != want:
                V("R4.hash", f"resolved to {_rel(used_path, root)} whose bytes hash to {got[:16]}, reference says {want[:16]}")
            if not under(os.path.realpath(used_path), cache):
                V("R4.outside", f"resolved to {_rel(used_path, root)}, outside the standards cache")
    if d:
        V("R4.changed", f"tree changed: {d[:4]}")
    log = [via, label, case.get("tamper") or None, _rel(used_path, root) if used_path else None, [_rel(p, root) for p in opened],
           a.outcome if a.outcome != "returned" else "ok"]
    if "cur" in _layout_state:
        _layout_state["cur"]["snap"] = snapshot_m(root)  # later steps are judged against the tree as this step left it
        _layout_state["cur"]["dirty"] = False
    return {"violations": viols, "log": log, "digest": digest(log)}


URI_SEGS = ["v.oct.md", "inner/w.oct.md", "inner/../v.oct.md", "../docs/a.oct.md", "../../out/secret.oct.md", "ln_out/secret.txt",
            "ln_secret.oct.md", "ln_in.oct.md", "ln_sibling/a.oct.md", "inner/../../docs/a.oct.md", "/etc/passwd", "<R>/out/secret.txt",
            "", ".", "..", "inner/..", "./v.oct.md", "missing.oct.md", "ln_out", "C:/x", "a\x00b", "inner//w.oct.md",
            "../vocab/v.oct.md", "../vocab/../../out/secret.txt", "~/secret", "file:///etc/passwd", "%2e%2e/docs/a.oct.md",
            "..\\docs\\a.oct.md", "inner/../ln_out/secretdir/s.oct.md", "L" * 300,
            "../vocab-private/secret.oct.md", "../vocab2/x.oct.md", "../vocabulary.oct.md", "ln_priv/secret.oct.md",
            "inner/../../vocab-private/secret.oct.md", "../vocab-private", "../vocab2/../vocab/v.oct.md",
            # through symlink loops (see the layout)
            "loop/../ln_out/secret.txt", "loop/../ln_secret.oct.md", "loopA/../ln_priv/secret.oct.md", "loop/x.oct.md", "loop",
            "peel1/secret.txt", "peel2/secret.oct.md", "loop/../v.oct.md", "loop/../loopA/../ln_out/secret.oct.md",
            "inner/loop/../../ln_sibling/a.oct.md", "inner/loop/../w.oct.md", "loop/../../vocab-private/secret.oct.md",
            "loop/../ln_out/secretdir/s.oct.md"]


def run_uri_case(case: dict, stats: Stats | None = None) -> dict:
    from pathlib import Path

    root, snap0 = ensure_layout(case["variant"])
    base = os.path.join(root, "sb", "vocab") if case.get("base", "vocab") == "vocab" else os.path.join(root, "sb", "docs", "ln_up", "vocab")
    base_real = os.path.realpath(base)
    uri = case["uri"].replace("<R>", root)
    via = case["via"]

    def fn():
        if via == "validate_source_uri":
            from octave_mcp.core.hydrator import validate_source_uri

            return {"path": str(validate_source_uri(uri, Path(base)))}
        from octave_mcp.core.hydrator import check_staleness
        from octave_mcp.core.parser import parse

        q = uri.replace("\\", "\\\\").replace('"', '\\"')
        text = ('===H===\nMETA:\n  TYPE::TEST\n§CONTEXT::SNAPSHOT["@t/v"]\n  T::1\n§SNAPSHOT::MANIFEST\n'
                f'  SOURCE_URI::"{q}"\n  SOURCE_HASH::"sha256:{"0" * 64}"\n===END===\n')
        try:
            doc = parse(text)
        except Exception as e:  # noqa: BLE001  -- this URI cannot even be written in a document
            return {"unparseable": type(e).__name__}
        res = check_staleness(doc, base_path=Path(base), allowed_root=Path(base))
        return {"staleness": [(r.status, r.error) for r in res]}

    def control_factory(_nm):
        def cfn():
            if via == "validate_source_uri":
                from octave_mcp.core.hydrator import validate_source_uri

                try:
                    return {"p": str(validate_source_uri("zz_control_missing.oct.md", Path(base)))}
                except Exception:  # noqa: BLE001
                    return {}
            from octave_mcp.core.hydrator import check_staleness
            from octave_mcp.core.parser import parse

            doc = parse('===H===\nMETA:\n  TYPE::TEST\n§CONTEXT::SNAPSHOT["@t/v"]\n  T::1\n§SNAPSHOT::MANIFEST\n'
                        '  SOURCE_URI::"zz_control_missing.oct.md"\n  SOURCE_HASH::"sha256:00"\n===END===\n')
            return {"s": len(check_staleness(doc, base_path=Path(base), allowed_root=Path(base)))}

        return cfn

    control = _control_opened(("uri", via), root, os.path.join(root, "sb"), None, control_factory)
    sim, a, resolved = Recorder(root).run(fn, cwd=os.path.join(root, "sb"))
    snap1 = snapshot_m(root)
    d = diff_m(snap0, snap1)
    if d:
        mark_dirty()
    viols = []

    def V(clause, detail):
        viols.append({"clause": clause, "signature": f"{clause}|{via}", "detail": f"{via}({uri.replace(root, '<R>')!r}, base=<R>{base[len(root):]}): {detail}"})

    opened = [p for p in opened_files(sim, resolved, root) if p not in control]
    stray = [p for p in opened if not under(p, base_real)]
    if stray:
        V("R5.opened-outside", f"opened {[_rel(p, root) for p in stray[:3]]}, outside the base directory")
    ret = None
    if a.outcome == "returned" and "path" in a.result:
        ret = a.result["path"]
        try:
            rp = os.path.realpath(ret)
        except (OSError, ValueError):
            rp = ret
        if not under(rp, base_real):
            V("R5.resolved-outside", f"returned {_rel(ret, root)} -> {_rel(rp, root)}, outside the base directory")
    if d:
        V("R5.changed", f"tree changed: {d[:4]}")
    log = [via, uri.replace(root, "<R>"), case.get("base"), _rel(ret, root) if ret else None, [_rel(p, root) for p in opened],
           a.outcome if a.outcome != "returned" else {k: v for k, v in a.result.items() if k != "path"}]
    if stats is not None:
        stats.inc("runs")
        stats.inc("uri_calls")
        stats.group("uri_outcomes", "resolved" if ret else ("opened" if opened else "refused"))
        stats.distinct("uri_behaviours", repr((via, case["uri"], case.get("base"), bool(ret), bool(opened))))
    return {"violations": viols, "log": log, "digest": digest(log)}


# --------------------------------------------------------------------------- #
# units
# --------------------------------------------------------------------------- #


def run_case(case: dict, stats: Stats | None = None) -> dict:
    k = case["kind"]
    fn = {"path": run_path_case, "path_seq": run_path_seq_case, "schema": run_schema_case, "schema_sweep": run_schema_sweep, "frozen": run_frozen_case,
          "uri": run_uri_case}[k]
    res = fn(case, stats)
    if k in ("frozen", "schema", "path_seq"):
        return res  # executed (and masked) in a forked child
    # the per-process scratch root must never leak into logs, details or digests
    root = _layout_state["cur"]["root"]
    res["log"] = json.loads(json.dumps(res["log"]).replace(root, "<R>"))
    res["digest"] = digest(res["log"])
    for v in res["violations"]:
        v["detail"] = v["detail"].replace(root, "<R>")
    return res


def gen_name(t: Tape) -> str:
    pool = list("ABCXYZabcxyz0189_./-") + NAME_EXTRA
    if t.flag(250, "n.trap"):
        return t.pick(["../secret", "../../secret", "sub/x", "../a", "../B", "../z", "SUB/X", "../SECRET", "..", "../", "a/../../secret",
                       "../schemas-private/x", "../SCHEMAS-PRIVATE/X",
                       "./a", "A/", "/etc/passwd", "../../../out/secret", "A\n", "META\n", "a.oct.md", "../a.oct.md", "A.OCT", "a\x00"],
                      "n.trapname")
    n = 1 + t.choose(6, "n.len")
    base = t.weighted([("", 5), ("META", 1), ("SKILL", 1), ("A", 1), ("AB", 1), ("../", 2), ("sub/x", 1), ("../secret", 1),
                       ("..", 1)], "n.base")
    s = base + "".join(t.pick(pool, "n.ch") for _ in range(n))
    return s[:12] if base else s[:6]


def gen_case(kind: str, vseed: int, j: int) -> dict:
    seed = derive_seed(vseed, PROP, kind, j)
    t = Tape(seed)
    variant = {"abs_links": bool(t.choose(2, "v.abs"))}
    c = {"prop": PROP, "seed": seed, "kind": kind, "variant": variant}
    if kind == "path":
        c["path"] = gen_path(t)
        c["call"] = t.weighted(PATH_CALLS, "c.kind")
    elif kind == "path_enum":
        # EVERY (directory prefix of depth <= d) x final segment x {absolute, relative} x call, in a fixed order
        calls = [k for k, _ in PATH_CALLS]
        x = j
        c["call"], x = calls[x % len(calls)], x // len(calls)
        ab, x = bool(x % 2), x // 2
        final, x = FINAL_SEGS[x % len(FINAL_SEGS)], x // len(FINAL_SEGS)
        segs = []
        if x > 0:
            x -= 1
            segs.append(DIR_SEGS[x % len(DIR_SEGS)])
            x //= len(DIR_SEGS)
            if x > 0:
                x -= 1
                segs.insert(0, DIR_SEGS[x % len(DIR_SEGS)])
        rel = "/".join(segs + [final])
        c["path"] = {"rel": rel, "absolute": ab or rel.startswith("/")}
        c["kind"] = "path"
    elif kind == "path_seq":
        n_c, n_m, n_p = len(PSEQ_CALLS), len(PSEQ_MUTATIONS), len(PSEQ_PATHS)
        x = j
        c1, x = PSEQ_CALLS[x % n_c], x // n_c
        c2, x = PSEQ_CALLS[x % n_c], x // n_c
        mu, x = PSEQ_MUTATIONS[x % n_m], x // n_m
        c["rel"], x = PSEQ_PATHS[x % n_p], x // n_p
        c["absolute"] = bool(x % 2)
        c["steps"] = [{"call": c1}, {"call": c2, "mutate": mu}]
        if x >= 2:
            c["steps"].append({"call": t.pick(PSEQ_CALLS, "ps.c3")})
    elif kind == "schema":
        # first: ALL ordered pairs over (name that exists only in a cwd-relative directory | packaged | absent | trap) x cwd x entry
        names = ["A", "AB", "Z9", "B_2", "META", "NOPE", "../secret"]
        cwds = ["proj", "sb", "proj/specs", "home"]
        vias = ["loader", "validate"]
        n1 = len(names) * len(cwds) * len(vias)
        if j < n1 * n1:
            def dec(x):
                return {"name": names[x % len(names)], "cwd": cwds[(x // len(names)) % len(cwds)], "via": vias[x // (len(names) * len(cwds))]}
            c["steps"] = [dec(j % n1), dec(j // n1)]
        else:
            c["steps"] = [{"name": gen_name(t), "via": t.weighted([("loader", 5), ("validate", 2), ("write", 2), ("cli_validate", 1)], "s.via"),
                           "cwd": t.pick(cwds, "s.cwd")} for _ in range(1 + t.choose(3, "s.n"))]
    elif kind == "frozen":
        # j enumerates ALL ordered pairs of (reference, entry point) x what happens to the cache in between
        refs = frozen_refs("<R>")
        vias = ["resolve", "write", "resolve_cache_dir"]
        n1 = len(refs) * len(vias)
        # first steps that can leave state behind come first (a reference that resolves, or whose file exists / almost matches):
        # the quick tier enumerates exactly those as first step (6 x 3 x 63 x 3 = 3 402 sequences), the thorough tier all 11 907
        leaders = [i for i, (lab, _) in enumerate(refs) if lab in ("good", "good-upper", "same-prefix-wrong-tail", "file-with-wrong-bytes",
                                                                   "latest", "missing")]
        order = [v * len(refs) + i for v in range(len(vias)) for i in leaders] + [x for x in range(n1) if x % len(refs) not in leaders]
        b_, rest = j % n1, j // n1
        tam, rest = [None, "rewrite", "stealth"][rest % 3], rest // 3
        a_idx, rest = rest % n1, rest // n1
        a_ = order[a_idx]
        steps = [{"ref": list(refs[a_ % len(refs)]), "via": vias[a_ // len(refs)]},
                 {"ref": list(refs[b_ % len(refs)]), "via": vias[b_ // len(refs)], "tamper": tam}]
        if rest >= 1:
            # beyond the exhaustive pairs: seeded longer sequences
            steps = [{"ref": list(t.pick(refs, "fz.ref")), "via": t.pick(vias, "fz.via"), "tamper": t.pick([None, None, "rewrite", "stealth"], "fz.t")}
                     for _ in range(3 + t.choose(3, "fz.n"))]
        c["steps"] = steps
    elif kind == "uri":
        c["uri"] = URI_SEGS[j % len(URI_SEGS)] if j < 4 * len(URI_SEGS) else "/".join(
            t.pick(["..", "inner", "ln_out", "ln_sibling", ".", "v.oct.md", "secret.txt", "docs", "out", "", "vocab-private", "vocab2",
                    "vocabulary.oct.md", "secret.oct.md", "ln_priv", "x.oct.md", "vocab"], "u.seg")
            for _ in range(1 + t.choose(4, "u.n")))
        c["via"] = ["validate_source_uri", "check_staleness"][(j // len(URI_SEGS)) % 2]
        c["base"] = ["vocab", "via_link"][(j // (2 * len(URI_SEGS))) % 2]
    return c


def units(tier: str, vseed: int) -> list:
    out = []
    if tier == "quick":
        n_enum = len(PATH_CALLS) * 2 * len(FINAL_SEGS) * (1 + len(DIR_SEGS))  # depth <= 1, complete
        plan = [("path_enum", -(-n_enum // 400), 400), ("path", 16, 400), ("schema", 13, 250), ("frozen", 14, 250), ("uri", 4, 120),
                ("path_seq", 4, 216)]  # 3 402+ frozen pairs (state-setting first steps), all 3 136 schema pairs, 864 path sequences
        sweep_len = 4
    else:
        n_enum = len(PATH_CALLS) * 2 * len(FINAL_SEGS) * (1 + len(DIR_SEGS) + len(DIR_SEGS) ** 2)  # depth <= 2, complete
        plan = [("path_enum", -(-n_enum // 800), 800), ("path", 800, 800), ("schema", 800, 200), ("frozen", 250, 200), ("uri", 64, 240), ("path_seq", 16, 216)]
        sweep_len = 5
    for kind, n, per in plan:
        for i in range(n):
            out.append({"kind": kind, "start": i * per, "count": per, "vseed": vseed, "tier": tier})
    total = sum(len(NAME_ALPHABET) ** k for k in range(1, sweep_len + 1))
    step = 4000 if tier == "quick" else 20000
    for lo in range(0, total, step):
        out.append({"kind": "schema_sweep", "lo": lo, "hi": min(lo + step, total), "maxlen": sweep_len, "alphabet": NAME_ALPHABET})
    from .runner import interleave

    return interleave(out, lambda u: u["kind"])


def run_unit(unit: dict):
    stats = Stats()
    viols = []
    if unit["kind"] == "det":
        for j in range(unit["lo"], unit["hi"]):
            for kind in ("path", "schema", "frozen", "uri"):
                res = run_case(gen_case(kind, unit["vseed"], j))
                stats.sample("det", (f"{kind}{j}", res["digest"] + ":" + ",".join(v["clause"] for v in res["violations"])), cap=10 ** 9)
        return stats, viols
    if unit["kind"] == "schema_sweep":
        case = {"prop": PROP, "seed": 0, "kind": "schema_sweep", "variant": {"abs_links": False}, "lo": unit["lo"], "hi": unit["hi"],
                "maxlen": unit["maxlen"], "alphabet": unit["alphabet"]}
        res = run_case(case, stats)
        for v in res["violations"]:
            viols.append({"clause": v["clause"], "signature": v["signature"], "detail": v["detail"], "case": case})
        return stats, viols
    for j in range(unit["start"], unit["start"] + unit["count"]):
        if unit["kind"] == "path_enum":
            depth = 1 if unit.get("tier") == "quick" else 2
            if j >= len(PATH_CALLS) * 2 * len(FINAL_SEGS) * sum(len(DIR_SEGS) ** d_ for d_ in range(depth + 1)):
                break
            stats.inc("path_enum_cases")
        case = gen_case(unit["kind"], unit["vseed"], j)
        res = run_case(case, stats)
        for v in res["violations"]:
            if len(viols) < 40:
                viols.append({"clause": v["clause"], "signature": v["signature"], "detail": v["detail"], "case": case})
    return stats, viols


def minimise(case: dict, clause: str, sig: str, budget: int = 60) -> dict:
    """Shorten the path string (drop leading directory segments) while the same signature fails."""
    if case["kind"] != "path":
        return case
    cur = json.loads(json.dumps(case))

    def fails(c):
        try:
            return any(v["signature"] == sig for v in run_case(c)["violations"])
        except Exception:
            return False

    if not fails(cur):
        return case
    changed = True
    n = 0
    while changed and n < budget:
        changed = False
        segs = cur["path"]["rel"].split("/")
        for i in range(len(segs) - 1):
            n += 1
            c = json.loads(json.dumps(cur))
            c["path"]["rel"] = "/".join(segs[:i] + segs[i + 1:])
            if fails(c):
                cur, changed = c, True
                break
        if not changed and cur["path"]["absolute"]:
            c = json.loads(json.dumps(cur))
            c["path"]["absolute"] = False
            if fails(c):
                cur, changed = c, True
    return cur


def determinism_digests(n: int, seed: int) -> list:
    from . import runner

    seam.install()
    seam.install_audit()
    us = [{"kind": "det", "lo": i, "hi": min(i + 10, n), "vseed": seed} for i in range(0, n, 10)]
    stats, viols, errors, done = runner.run_units("sim.c19", us, progress=False)
    if errors:
        raise RuntimeError(errors[0])
    got = dict(stats.samples.get("det", []))
    return [got.get(f"{kind}{i}") for i in range(n) for kind in ("path", "schema", "frozen", "uri")]


ASSUMPTIONS = [
    "the seam (os.*, open) plus the sys.addaudithook observer see every file access of the calling thread; a mutating audit event the seam did not perform aborts the run as a harness error",
    "the classifier is lexical + lstat on the initial layout and independent of the code's validators; it only ever DEMANDS refusal ('..', symlink component incl. dangling and final, extension not in the allow-list) -- nothing is demanded of other paths except confinement",
    "an attempt the kernel itself rejected (e.g. mkdir over a dangling link -> EEXIST) does not count as 'read, created or replaced'",
    "sandbox and outside roots live under a realpath()ed base, so no ancestor above them is a symlink; races that swap a component during the call are out of scope",
    "a symlink placed INSIDE a schema directory is outside the property (the name still selects a directory entry there)",
]
COMPONENTS = {
    "real": ["WriteTool.execute / _validate_path", "ValidateTool.execute / _validate_path", "file_ops.validate_octave_path / atomic_write_octave",
             "cli write / normalize -o / seal -o / validate --schema", "schemas.loader.load_schema_by_name", "hydrator.resolve_hermetic_standard",
             "hydrator.validate_source_uri / check_staleness", "kernel path resolution (tmpfs, real symlinks)"],
    "stub": ["nothing is simulated here except the recorder: no scheduling, no faults (the property has none in it)", "MCP dispatcher/transport"],
}


def main(tier: str, seed: int, args) -> int:
    import time

    from . import runner

    seam.install()
    seam.install_audit()
    t0 = time.time()
    us = units(tier, seed)
    if args.units:
        us = us[: args.units]
    stats, viols, errors, done = runner.run_units("sim.c19", us, wall_cap=600 if tier == "quick" else 3300)
    wall = time.time() - t0
    c = stats.c
    runs = c.get("runs", 0)
    distinct = sum(len(stats.sets.get(k, ())) for k in ("path_behaviours", "frozen_behaviours", "uri_behaviours", "schema_files_opened",
                                                        "schema_sweep_hits", "path_seq_shapes"))
    sweep_total = sum(len(NAME_ALPHABET) ** k for k in range(1, (4 if tier == "quick" else 5) + 1))
    coverage = {
        "evaluations": runs + c.get("schema_sweep_names", 0),
        "distinct_nontrivial": distinct,
        "rule": "one evaluation = one call of a real tool/function on a generated argument over the generated layout, with every path it touched "
                "recorded; distinct_nontrivial = distinct (call site, refusal reasons, refused?, set of effective operation kinds) behaviours for "
                "paths + distinct frozen-reference and URI behaviours + distinct schema names/files that actually opened a file",
        "samples": stats.samples.get("path_case", [])[:2] + sorted(stats.sets.get("path_strings", ()))[40:46]
                   + sorted(stats.sets.get("schema_sweep_hits", ()))[:4],
        "units_done": done, "units_planned": len(us), "runs_per_hour": int(runs / wall * 3600) if wall else 0,
        "path_enumeration": {"complete_up_to_directory_depth": 1 if tier == "quick" else 2, "cases": c.get("path_enum_cases", 0),
                             "directory_segments": len(DIR_SEGS), "final_segments": len(FINAL_SEGS), "calls": len(PATH_CALLS)},
        "path_calls": c.get("path_calls", 0), "distinct_path_strings": len(stats.sets.get("path_strings", ())),
        "path_calls_where_refusal_was_required": c.get("nontrivial_path_calls", 0),
        "path_verdicts": dict(stats.groups.get("path_verdicts", {})), "refusal_reasons": dict(stats.groups.get("refusal_reasons", {})),
        "path_sequences_with_layout_change_between_calls": c.get("path_sequences", 0),
        "schema_sequences": c.get("schema_sequences", 0), "schema_sequences_with_cwd_change": c.get("schema_sequences_with_cwd_change", 0),
        "frozen_sequences": c.get("frozen_sequences", 0),
        "schema_calls": c.get("schema_calls", 0), "distinct_schema_names_sampled": len(stats.sets.get("schema_names", ())),
        "schema_sweep": {"alphabet": NAME_ALPHABET, "max_length": 4 if tier == "quick" else 5, "names": c.get("schema_sweep_names", 0),
                         "names_total": sweep_total, "exhaustive_over_alphabet": c.get("schema_sweep_names", 0) == sweep_total,
                         "names_that_opened_a_file": sorted(stats.sets.get("schema_sweep_hits", ()))[:40]},
        "frozen_calls": c.get("frozen_calls", 0), "frozen_outcomes": dict(sorted(stats.groups.get("frozen_outcomes", {}).items())),
        "uri_calls": c.get("uri_calls", 0), "uri_outcomes": dict(stats.groups.get("uri_outcomes", {})),
        "probes": dict(stats.groups.get("probes", {})),
        "fault_counts_fired": {}, "simulated_time": "not applicable: no clock, schedule or fault enters this property; the seam is a recorder",
        "exhaustive": False, "components": COMPONENTS,
    }
    return runner.finish(PROP, sys.modules[__name__], tier, seed, stats, viols, errors, wall, coverage, ASSUMPTIONS)
