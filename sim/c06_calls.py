"""C06 call pool: generation, execution and canonical serialisation of calls.

Used both by the orchestrator (sim.c06) and by fresh-interpreter workers
(sim.c06_worker), so it must not depend on the orchestrator.
"""

from __future__ import annotations

import dataclasses
import enum
import hashlib
import json
import os
import shutil

from .tape import Tape

# ---- generated schemas: byte-identical copies are placed in every project directory -------------------------------

GEN_SCHEMAS = {
    "gen_a.oct.md": '''===GEN_A===
META:
  TYPE::SCHEMA
  VERSION::"1.0"
POLICY:
  VERSION::"1.0"
  UNKNOWN_FIELDS::REJECT
FIELDS:
  NAME::["example"∧REQ→§INDEXER]
  KIND::["X"∧REQ∧ENUM[X,Y,Z,ALPHA,ALPINE,BETA]→§META]
  COUNT::[1∧OPT∧TYPE[NUMBER]→§SELF]
  TAGS::[["a","b"]∧OPT→§INDEXER]
===END===
''',
    "gen_b.oct.md": '''===GEN_B===
META:
  TYPE::SCHEMA
  VERSION::"2.1"
POLICY:
  VERSION::"1.0"
  UNKNOWN_FIELDS::WARN
FIELDS:
  TITLE::["t"∧REQ∧REGEX["^[a-z_]+$"]]
  LEVEL::["LOW"∧OPT∧ENUM[LOW,LOWER,MID,MIDDLE,HIGH]→§INDEXER]
  SIZE::[3∧OPT∧TYPE[NUMBER]∧RANGE[1,9]]
===END===
''',
}

GEN_SCHEMAS["gen_c.oct.md"] = '''===GEN_C===
META:
  TYPE::SCHEMA
  VERSION::"1.0"
POLICY:
  VERSION::"1.0"
  UNKNOWN_FIELDS::WARN
FIELDS:
  CONTENT::["c"∧REQ]
  FIELD::["f"∧OPT]
  ROOT::["r"∧OPT∧ENUM[R1,R2]]
  STATUS::["ACTIVE"∧OPT∧ENUM[ACTIVE,DONE]]
  Status::["x"∧OPT]
  A_B::["1"∧OPT]
  A-B::["2"∧OPT]
  WS::["w"∧OPT]
===END===
'''
# GEN_C: field names that collide once turned into grammar rule names (case-only differences, '-' vs '_', names equal to the
# compiler's own structural rules) -- whatever disambiguates them must not depend on what the process compiled before

# GEN_D / GEN_E: near-twin SCHEMAS.  Both route the same fields to the same custom targets; D declares them (POLICY.TARGETS,
# DEFAULT_TARGET), E does not -- so E's answer is "unknown target".  Anything one schema's validation registers, declares or
# learns and that outlives the call shows up as a different answer for its twin later in the same process.
GEN_SCHEMAS["gen_d.oct.md"] = '''===GEN_D===
META:
  TYPE::SCHEMA
  VERSION::"1.0"
POLICY:
  VERSION::"1.0"
  UNKNOWN_FIELDS::WARN
  TARGETS::[§INDEXER, §AUDIT_TRAIL, §LEDGER]
  DEFAULT_TARGET::§VAULT
FIELDS:
  ENTRY::["opening balance"∧REQ→§AUDIT_TRAIL]
  NOTE::["n"∧OPT→§LEDGER]
  SAFE::["s"∧OPT→§VAULT]
  ODD::["o"∧OPT→§NOPE_T]
  PLAIN::["p"∧OPT]
===END===
'''
GEN_SCHEMAS["gen_e.oct.md"] = '''===GEN_E===
META:
  TYPE::SCHEMA
  VERSION::"1.0"
POLICY:
  VERSION::"1.0"
  UNKNOWN_FIELDS::WARN
  TARGETS::[§INDEXER]
FIELDS:
  ENTRY::["opening balance"∧REQ→§AUDIT_TRAIL]
  NOTE::["n"∧OPT→§LEDGER]
  SAFE::["s"∧OPT→§VAULT]
  ODD::["o"∧OPT→§NOPE_T]
  PLAIN::["p"∧OPT]
===END===
'''

# GEN_F: the constraint kinds the other generated schemas do not use (dates and times, lengths, constants): their verdicts must not
# depend on the process environment (time zone names, locale) any more than on the hash seed
GEN_SCHEMAS["gen_f.oct.md"] = '''===GEN_F===
META:
  TYPE::SCHEMA
  VERSION::"1.0"
POLICY:
  VERSION::"1.0"
  UNKNOWN_FIELDS::WARN
FIELDS:
  WHEN::["2024-01-01T00:00:00Z"∧REQ∧ISO8601→§INDEXER]
  DAY::["2024-01-01"∧OPT∧DATE]
  SHORT::["abc"∧OPT∧MAX_LENGTH[5]]
  LONGISH::["abcdef"∧OPT∧MIN_LENGTH[4]]
  FIXED::["on"∧OPT∧CONST["on"]]
===END===
'''
ISO_VALUES = ['"2024-03-01T10:30:00Z"', '"2024-03-01T10:30:00 UTC"', '"2024-03-01T10:30:00 IST"', '"2024-03-01T10:30:00 NST"', '"2024-03-01T10:30:00 NDT"',
              '"2024-03-01T10:30:00 CET"', '"2024-03-01T10:30:00 GMT"', '"2024-03-01T10:30:00+05:30"', '"2024-03-01 10:30"', '"01/03/2024"',
              '"2024-03-01T10:30:00 EST"', '"2024-W09-5"', '"20240301T103000Z"', "yesterday"]

SCHEMA_NAMES = ["META", "SKILL", "TEST_HOLOGRAPHIC", "DEBATE_TRANSCRIPT", "GEN_A", "GEN_B", "GEN_C", "GEN_D", "GEN_E", "GEN_F", "NOPE"]
PACKAGED_ONLY = {"META", "SKILL", "TEST_HOLOGRAPHIC", "DEBATE_TRANSCRIPT", "NOPE"}


def make_project_dir(path: str):
    os.makedirs(os.path.join(path, "specs", "schemas"), exist_ok=True)
    for name, text in GEN_SCHEMAS.items():
        with open(os.path.join(path, "specs", "schemas", name), "w", encoding="utf-8") as f:
            f.write(text)


# ---- documents ---------------------------------------------------------------------------------------------------

ATOMS = ["alpha", "beta", "GAMMA", "delta_4", "x", "y9", "Zed"]


def doc_reporting(t: Tape, marker: str) -> str:
    """A document that hits every reporting site that iterates a collection: many unknown fields, duplicate keys,
    routed fields, holographic values, under both generated schemas."""
    lines = ["===DOC===", "META:", "  TYPE::TEST", '  VERSION::"1.0"', f"  MARK::{marker}"]
    unknown = t.shuffle(["ZED", "YOT", "ALPHA", "BETA", "GAMMA", "OMEGA", "KAPPA", "MU"], "rep.unk")[: 3 + t.choose(6, "rep.nunk")]
    # block-level routing targets (`SECTION[->§TARGET]:`): fields WITHOUT a target of their own inherit them -- the rare path
    # through the inheritance resolver; documents of one process's history use different targets for the same section
    BT = ["", "[→§INDEXER]", "[→§SELF]", "[→§META]", "[→§NOPE_T]", "[->§INDEXER]"]
    lines.append("GEN_A" + t.pick(BT, "rep.btA") + ":")
    if t.choose(4, "rep.holo") != 0:
        lines.append('  NAME::["' + t.pick(["abc", "def", "x y"], "rep.nm") + '"∧REQ→§INDEXER]')
    else:
        lines.append("  NAME::" + t.pick(ATOMS, "rep.nm2"))
    # exact, wrong case, unknown, and proper prefixes of one / of several enum members
    lines.append("  KIND::" + t.pick(["X", "x", "Q", "y", "AL", "ALP", "alpha", "B", "A", "ALPI"], "rep.kind"))
    if t.choose(2, "rep.count"):
        lines.append("  COUNT::" + t.pick(["5", '"5"', "many", "1.0", "0.0", "1", "0", "true", "false", "-0.0"], "rep.cnt"))
    if t.choose(2, "rep.tags"):
        lines.append("  TAGS::[" + ",".join(t.pick(ATOMS, "rep.tag") for _ in range(1 + t.choose(3, "rep.nt"))) + "]")
    for u in unknown:
        lines.append(f"  {u}::{t.choose(9, 'rep.v')}")
    if t.choose(3, "rep.dup") == 0:
        lines.append("  KIND::Y")
    lines.append("GEN_B" + t.pick(BT, "rep.btB") + ":")
    lines.append("  TITLE::" + t.pick(["good_title", "Bad Title", '"quoted"'], "rep.title"))
    lines.append("  LEVEL::" + t.pick(["LOW", "low", "ULTRA", "LO", "L", "MID", "M", "MI", "HI"], "rep.level"))
    lines.append("  SIZE::" + t.pick(["3", "12", '"4"', "1.0", "1", "true", "0.0", "false"], "rep.size"))
    for u in t.shuffle(unknown, "rep.unk2")[:4]:
        lines.append(f"  {u}_B::1")
    if t.choose(2, "rep.genc"):
        lines += ["GEN_C" + t.pick(BT, "rep.btC") + ":", "  CONTENT::" + t.pick(["c", '"two words"'], "rep.cc"), "  STATUS::" + t.pick(["ACTIVE", "active", "A", "DONE"], "rep.cs"),
                  "  Status::on", "  A_B::1"]
    if t.choose(2, "rep.gende"):
        for nm_ in ("GEN_D", "GEN_E"):
            lines += [nm_ + t.pick(BT + ["[→§AUDIT_TRAIL]", "[→§VAULT]"], "rep.btDE") + ":", '  ENTRY::"42 EUR"', "  NOTE::" + t.pick(ATOMS, "rep.dn"), "  SAFE::1",
                      "  ODD::" + t.pick(ATOMS, "rep.do"), "  PLAIN::p"]
    if t.choose(3, "rep.genf") == 0:
        lines += ["GEN_F:", "  WHEN::" + t.pick(ISO_VALUES, "rep.fw"), "  DAY::" + t.pick(['"2024-03-01"', '"2024-3-1"', '"01.03.2024"', '"2024-02-30"', "today"], "rep.fd"),
                  "  SHORT::" + t.pick(["abc", '"abcdef"', '"äöüßé"', '"äöüßéx"'], "rep.fs"), "  LONGISH::" + t.pick(["abcd", "abc", '"äöü"', '"äöüß"'], "rep.fl"),
                  "  FIXED::" + t.pick(["on", "ON", "off", '"on"'], "rep.ff")]
    if t.choose(3, "rep.lit") == 0:
        # literal zone with characters that have several Unicode spellings (composed/decomposed, ligature, full-width)
        lines += ["CODE::", "  ```python", "  print('x  y')", "  if x: pass", "  s = 'caf\u00e9 \u00f1 \u212b \ufb01 \uff21'", "  ```"]
    lines.append("===END===")
    return "\n".join(lines) + "\n"


def doc_small(t: Tape, marker: str, style: str = "canonical") -> str:
    from . import docs

    return docs.gen_doc(t, marker, style)


def doc_contract(t: Tape, marker: str) -> str:
    fields = t.shuffle(["STATUS", "PRIORITY", "OWNER", "SCORE", "LABELS", "Status", "CONTENT", "A_B", "A-B", "ROOT"], "con.f")[: 2 + t.choose(6, "con.n")]
    specs = {
        "Status": '"FIELD[Status]::OPT∧ENUM[on,off]"',
        "CONTENT": '"FIELD[CONTENT]::REQ"',
        "A_B": '"FIELD[A_B]::OPT∧TYPE[NUMBER]"',
        "A-B": '"FIELD[A-B]::OPT"',
        "ROOT": '"FIELD[ROOT]::OPT∧ENUM[R1,R2]"',
        "STATUS": '"FIELD[STATUS]::REQ∧ENUM[ACTIVE,PAUSED,COMPLETE]"',
        "PRIORITY": '"FIELD[PRIORITY]::OPT∧ENUM[LOW,MEDIUM,HIGH]"',
        "OWNER": '"FIELD[OWNER]::REQ∧REGEX[\\"^[a-z]+$\\"]"',
        "SCORE": '"FIELD[SCORE]::OPT∧TYPE[NUMBER]∧RANGE[0,10]"',
        "LABELS": '"FIELD[LABELS]::OPT∧TYPE[LIST]"',
    }
    return ("===SESSION===\nMETA:\n  TYPE::SESSION_LOG\n  VERSION::\"1.0\"\n  CONTRACT::[" + ",".join(specs[f] for f in fields)
            + f"]\nMARK::{marker}\nSTATUS::ACTIVE\n===END===\n")


N_TWIN_KINDS = 12


def near_twin(t: Tape, text: str):
    """A DIFFERENT text that a sloppy cache key would confuse with ``text`` (normalisation form, case, surrounding or
    trailing whitespace, final newline).  Returns None when the transformation changes nothing."""
    import unicodedata

    import re

    k = t.choose(N_TWIN_KINDS, "twin.kind")
    if k == 8:
        # same sections and fields, another block-level routing target: anything remembered per section/field path must not
        # carry over from the twin (r8d: a memo keyed by the id() of a per-call mapping whose address gets recycled)
        out = re.sub(r"(?m)^([A-Z][A-Z0-9_]*)\[(?:→|->)§([A-Z_]+)\]:$",
                     lambda m_: f"{m_.group(1)}[→§{'SELF' if m_.group(2) != 'SELF' else 'INDEXER'}]:", text)
    elif k == 9:
        out = re.sub(r"(?m)^([A-Z][A-Z0-9_]*)\[(?:→|->)§[A-Z_]+\]:$", r"\1:", text)
    elif k == 10:
        out = re.sub(r"(?m)^((?!META)[A-Z][A-Z0-9_]*):$", r"\1[→§META]:", text)
    elif k == 11:
        out = re.sub(r"(?m)^((?!META)[A-Z][A-Z0-9_]*):$", r"\1[→§NOPE_T]:", text)
    elif k == 0:
        out = unicodedata.normalize("NFD", text)
    elif k == 1:
        out = unicodedata.normalize("NFC", text)
    elif k == 2:
        out = unicodedata.normalize("NFKC", text)
    elif k == 3:
        out = text.rstrip("\n")
    elif k == 4:
        out = text + "\n"
    elif k == 5:
        out = "\n".join(ln + " " for ln in text.split("\n"))
    elif k == 6:
        out = text.replace("::", ":: ", 1)
    else:
        out = text.swapcase() if len(text) < 400 else text.replace("a", "A", 1)
    return out if out != text else None


def near_twins(text: str) -> list:
    """Every distinct near-twin of ``text`` (see near_twin), in a fixed order."""
    out, seen = [], {text}
    for k in range(N_TWIN_KINDS):
        tw = near_twin(Tape(values=[k]), text)
        if tw is not None and tw not in seen:
            seen.add(tw)
            out.append(tw)
    return out


def doc_literal_unicode(t: Tape, marker: str) -> str:
    """Literal zones (fenced, passed through byte for byte) holding characters with several Unicode spellings."""
    body = t.pick(["caf\u00e9 \u00f1", "cafe\u0301 n\u0303", "\u212b \ufb01 \uff21", "\u00c5 fi A", "x\u0301\u0323 y\u0323\u0301"], "lit.body")
    lang = t.pick(["python", "text", ""], "lit.lang")
    return (f"===DOC===\nMETA:\n  TYPE::TEST\n  VERSION::\"1.0\"\nMARK::{marker}\nSTATUS::ACTIVE\nNOTE::\"{body}\"\nCODE::\n  ```{lang}\n  s = '{body}'\n"
            f"  print(s)\n  ```\nRISKS::[r1,r2]\n===END===\n")


def mutate_text(t: Tape, text: str) -> str:
    """Tape-driven corruption so that error paths and lenient repairs occur."""
    lines = text.split("\n")
    k = t.choose(6, "mut.kind")
    if len(lines) < 4:
        return text + "X::[unclosed\n"
    i = 1 + t.choose(len(lines) - 2, "mut.i")
    if k == 0:
        del lines[i]
    elif k == 1:
        lines[i] = lines[i].replace("::", ":", 1)
    elif k == 2:
        lines.insert(i, lines[i])
    elif k == 3:
        lines[i] = lines[i] + " -> tail + more"
    elif k == 4:
        lines[i] = "\t" + lines[i]
    else:
        lines[i] = lines[i].replace("→", "->").replace("∧", "&").replace("⊕", "+")
    return "\n".join(lines)


# ---- unicode position battery ------------------------------------------------------------------------------------
# One character from each interesting Unicode category, each in its own tiny document per syntactic position.  A lexer or
# emitter that caches a per-character / per-token verdict must give the same answer whatever position the character was
# first met in: the battery serves one position first and probes the others (and the reverse).

UNI_CHARS = ["\u2163", "\u00b2", "\u0663", "\u0301", "\ufe0f", "1\ufe0f\u20e3", "\u26a0", "\u26a0\ufe0f", "\u00e9", "\u03a9", "\u65e5",
             "\U0001d518", "\u00aa", "\u01c5", "\u02b0", "\u203f", "\u200d", "\u20ac", "\u00bd", "\u2460", "\u0e01\u0e33", "\U0001f600",
             "\u00a0", "\u3000", "\u2028"]
UNI_POSITIONS = {
    "key_body": "===U===\nPHASE_{c}X::1\n===END===\n",
    "key_start": "===U===\n{c}KEY::1\n===END===\n",
    "value_start": "===U===\nPHASE::{c}\n===END===\n",
    "value_body": "===U===\nPHASE::ab{c}cd\n===END===\n",
    "list_item": "===U===\nL::[{c},x{c},{c}y]\n===END===\n",
    "quoted": '===U===\nQ::"a{c}b"\n===END===\n',
    "envelope": "===U{c}N===\nA::1\n===END===\n",
    "after_digit": "===U===\nSTEP_1{c}::2\n===END===\n",
}


def uni_battery() -> dict:
    """{position: [call specs]}; ids 910000+ (stable)."""
    out = {}
    n = 910000
    for pi, (pos, tmpl) in enumerate(UNI_POSITIONS.items()):
        lst = []
        for ci, ch in enumerate(UNI_CHARS):
            for api in ("tool.validate", "py.emit"):
                n = 910000 + (pi * len(UNI_CHARS) + ci) * 2 + (0 if api == "tool.validate" else 1)
                c = {"id": n, "api": api, "doc_kind": f"unicode:{pos}", "text": tmpl.replace("{c}", ch), "schema": "META"}
                if api == "tool.validate":
                    c["args"] = {"fix": True}
                lst.append(c)
        out[pos] = lst
    return out


# ---- order battery -------------------------------------------------------------------------------------------------
# A fixed handful of calls that reach the places where a result is ASSEMBLED FROM A COLLECTION (ambiguous enum prefixes, many
# unknown fields, several dropped sections, routed values): every fresh interpreter of the configuration grid serves them, so
# that whether such a place is compared under another hash seed never depends on what the seeded pool happens to contain.


def order_battery(include_env_only: bool = True) -> list:
    out = []

    def add(api, text, schema, **kw):
        out.append({"id": 920000 + len(out), "api": api, "doc_kind": "battery", "text": text, "schema": schema, **kw})

    meta_d = '===DOC===\nMETA:\n  TYPE::TEST\n  VERSION::"1.0"\n  STATUS::D\nA::1\n===END===\n'
    add("tool.validate", meta_d, "META", args={})
    add("tool.validate", meta_d.replace("STATUS::D", "STATUS::DE"), "META", args={"fix": True})
    add("tool.write", meta_d, "META", mode="content", initial=None, args={"schema": "META"})
    add("py.validate", meta_d, "META")
    holo = ('===DOC===\nMETA:\n  TYPE::TEST\n  VERSION::"1.0"\nTEST_HOLOGRAPHIC[→§INDEXER]:\n  NAME::thing\n  STATUS::D\n  OPTIONAL_FIELD::x\n'
            "  ZED::1\n  ALPHA::2\n  MU::3\n===END===\n")
    add("tool.validate", holo, "TEST_HOLOGRAPHIC", args={})
    add("tool.write", holo, "TEST_HOLOGRAPHIC", mode="content", initial=None, args={"schema": "TEST_HOLOGRAPHIC", "lenient": True})
    rep = ('===DOC===\nMETA:\n  TYPE::TEST\n  VERSION::"1.0"\nGEN_A:\n  NAME::["abc"∧REQ→§INDEXER]\n  KIND::AL\n  COUNT::1.0\n  TAGS::[x,alpha,x]\n'
           "  ZED::1\n  YOT::2\n  ALPHA::3\n  OMEGA::4\n  KAPPA::5\n  MU::6\n  BETA::7\n  KIND::A\n"
           "GEN_B[→§SELF]:\n  TITLE::Bad Title\n  LEVEL::LO\n  SIZE::true\n  ZED_B::1\n  MU_B::1\n  ALPHA_B::1\n  OMEGA_B::1\n"
           "GEN_C:\n  CONTENT::c\n  STATUS::A\n  Status::on\n  A_B::1\n  A-B::2\n===END===\n")
    for schema in ("GEN_A", "GEN_B", "GEN_C"):
        add("tool.validate", rep, schema, args={})
        add("tool.validate", rep, schema, args={"fix": True, "profile": "LENIENT"})
    add("py.validate", rep, "GEN_A")
    # twin schemas: the same document under the schema that declares the custom targets and under the one that does not; and a
    # document that names one of those targets itself at block level
    rep2 = ('===DOC===\nMETA:\n  TYPE::TEST\n  VERSION::"1.0"\nGEN_D:\n  ENTRY::"42 EUR"\n  NOTE::n1\n  SAFE::1\n  ODD::o\n  PLAIN::p\n'
            'GEN_E:\n  ENTRY::"42 EUR"\n  NOTE::n1\n  SAFE::1\n  ODD::o\n  PLAIN::p\n===END===\n')
    add("tool.validate", rep2, "GEN_D", args={})
    add("tool.validate", rep2, "GEN_E", args={})
    add("py.validate", rep2.replace("GEN_E:", "GEN_E[→§NOPE_T]:"), "GEN_D")
    add("py.validate", rep2.replace("GEN_D:", "GEN_D[→§NOPE_T]:"), "GEN_E")
    # every date-time spelling, incl. zone ABBREVIATIONS (what they mean depends on the process's TZ), under the ISO8601 constraint
    rep3 = ('===DOC===\nMETA:\n  TYPE::TEST\n  VERSION::"1.0"\n' + "".join(
        f'GEN_F:\n  WHEN::{v_}\n  DAY::"2024-02-30"\n  SHORT::"äöüßéx"\n  LONGISH::"äöü"\n  FIXED::ON\n' for v_ in ISO_VALUES[:1]) + "===END===\n")
    add("tool.validate", rep3, "GEN_F", args={})
    add("tool.eject", rep, "GEN_A", args={"mode": "executive", "format": "json"})
    add("tool.eject", rep, "GEN_B", args={"mode": "developer", "format": "markdown"})
    sectioned = ('===DOC===\nMETA:\n  TYPE::TEST\n  VERSION::"1.0"\n' + "".join(f"§{nm}::S{i}\n  V{i}::{i}\n" for i, nm in enumerate(
        ["ZETA", "CONTEXT", "ALPHA", "RULES", "GLOSSARY", "NOTES", "LIMITS", "DEFINITIONS"])) + "§1::N1\n  W::1\n§10::N10\n  W::10\n§2::N2\n  W::2\n===END===\n")
    add("tool.write", meta_d.replace("STATUS::D", "STATUS::DRAFT"), "META", mode="content", initial=sectioned, args={})
    add("tool.write", None, "META", mode="changes", initial=sectioned, args={"changes": {"§CONTEXT": {"$op": "DELETE"}, "§ZETA": {"$op": "DELETE"}, "ADDED": [3, 1, 2]}})
    if include_env_only:
        # served by every fresh interpreter of the configuration grid (TZ, locale, ...), not part of the ordered-pair battery
        for i_, v_ in enumerate(ISO_VALUES[1:]):
            out.append({"id": 930000 + i_, "api": "py.validate", "doc_kind": "battery", "text": rep3.replace(ISO_VALUES[0], v_), "schema": "GEN_F",
                        "env_only": True})
    return out


def state_battery() -> list:
    """order_battery() plus the calls that BUILD something with names or counters (grammars): all ordered pairs (a, b) of this
    list are served by one process each -- a first, then b -- and b must answer as in a pristine process."""
    out = order_battery(include_env_only=False)

    def add(api, text, schema, **kw):
        out.append({"id": 920000 + len(out), "api": api, "doc_kind": "battery", "text": text, "schema": schema, **kw})

    contract = ('===SESSION===\nMETA:\n  TYPE::SESSION_LOG\n  VERSION::"1.0"\n  CONTRACT::["FIELD[STATUS]::REQ∧ENUM[ACTIVE,PAUSED,COMPLETE]",'
                '"FIELD[Status]::OPT∧ENUM[on,off]","FIELD[A_B]::OPT","FIELD[A-B]::OPT","FIELD[SCORE]::OPT∧TYPE[NUMBER]∧RANGE[0,10]",'
                '"FIELD[OWNER]::REQ∧REGEX[\\"^[a-z]+$\\"]"]\nMARK::b\nSTATUS::ACTIVE\n===END===\n')
    for schema in ("GEN_A", "GEN_B", "GEN_C", "META", "SKILL"):
        add("tool.compile_grammar", None, schema, args={"format": "gbnf"}, route="schema")
    add("tool.compile_grammar", contract, "META", args={"format": "gbnf"}, route="content")
    add("tool.compile_grammar", contract, "META", args={"format": "json_schema"}, route="content")
    for schema in ("GEN_A", "GEN_B", "GEN_C"):
        add("py.gbnf_schema", "", schema)
    add("py.gbnf_meta", contract, "META")
    add("tool.validate", contract, "META", args={"grammar_hint": True, "debug_grammar": True})
    add("tool.eject", contract, "META", args={"mode": "canonical", "format": "gbnf"})
    add("py.load_schema", "", "GEN_A")
    add("py.seal", contract, "META")
    return out


# ---- pool generation ---------------------------------------------------------------------------------------------


def gen_call(t: Tape, idx: int, corpus: list, heavy: bool = False) -> dict:
    """One call spec.  ``corpus`` = [(name, text)] of small repository documents."""
    m = f"c{idx:x}"
    dk = t.weighted([("reporting", 5), ("small", 3), ("lenient", 2), ("corpus", 4), ("mutated", 3), ("contract", 2), ("frontmatter", 1),
                     ("garbage", 1), ("literal_unicode", 2)], "call.doc")
    if dk == "reporting":
        text = doc_reporting(t, m)
    elif dk == "literal_unicode":
        text = doc_literal_unicode(t, m)
    elif dk == "small":
        text = doc_small(t, m)
    elif dk == "lenient":
        text = doc_small(t, m, "lenient")
    elif dk == "frontmatter":
        text = doc_small(t, m, "frontmatter")
    elif dk == "corpus":
        text = corpus[t.choose(len(corpus), "call.corpus")][1]
    elif dk == "mutated":
        base = corpus[t.choose(len(corpus), "call.corpus")][1] if t.choose(2, "call.mb") else doc_reporting(t, m)
        text = mutate_text(t, base)
    elif dk == "contract":
        text = doc_contract(t, m)
    else:
        text = t.pick(["", "\n\n", "plain prose without structure", "===X===\n" + "[" * 40, "A::" + "[" * 300 + "]" * 300,
                       "===DOC===\nA::😀\nB::‮ rtl\n===END===\n", "K::1\n" * 400], "call.garbage")
    schema = t.weighted([("META", 3), ("GEN_A", 5), ("GEN_B", 3), ("GEN_C", 3), ("GEN_D", 2), ("GEN_E", 2), ("GEN_F", 2), ("SKILL", 1), ("TEST_HOLOGRAPHIC", 1), ("DEBATE_TRANSCRIPT", 1),
                         ("NOPE", 1)], "call.schema")
    api = t.weighted([("tool.validate", 8), ("tool.write", 5), ("tool.eject", 3), ("tool.compile_grammar", 2), ("tool.validate_file", 1),
                      ("py.tokenize", 1), ("py.parse", 1), ("py.parse_with_warnings", 1), ("py.emit", 2), ("py.validate", 2),
                      ("py.repair", 1), ("py.project", 1), ("py.seal", 2), ("py.gbnf_schema", 1), ("py.gbnf_meta", 1),
                      ("py.load_schema", 1), ("py.coverage", 1), ("cli", 2)], "call.api")
    c = {"id": idx, "api": api, "doc_kind": dk, "text": text, "schema": schema}
    if api in ("tool.validate", "tool.validate_file"):
        a = {}
        for flag in ("fix", "diff_only", "compact", "grammar_hint", "debug_grammar"):
            if t.flag(300, "val." + flag):
                a[flag] = True
        if t.flag(400, "val.profile"):
            a["profile"] = t.pick(["STRICT", "STANDARD", "LENIENT", "ULTRA", "strict"], "val.prof")
        c["args"] = a
    elif api == "tool.write":
        mode = t.weighted([("content", 6), ("changes", 2), ("normalize", 2)], "wr.mode")
        a = {}
        c["mode"] = mode
        c["initial"] = None
        if mode != "content" or t.choose(2, "wr.over"):
            c["initial"] = doc_small(t, m + "i", t.pick(["canonical", "lenient", "frontmatter", "sectioned", "sectioned"], "wr.init"))
        if mode == "changes":
            a["changes"] = t.pick([{"MARK": "z"}, {"META.STATUS": "ACTIVE", "ADDED": ["p", 1]}, {"K0": {"$op": "DELETE"}},
                                   {"META": {"VERSION": "9"}, "N": None}], "wr.ch")
        # what the target path names: a file (or nothing), an existing DIRECTORY, something below a regular file, an over-long
        # name -- error envelopes are results too -- and whether the path is given relative to the working directory
        c["tstate"] = t.weighted([("file", 12), ("dir", 1), ("parent_file", 1), ("long", 1)], "wr.tstate")
        c["rel"] = bool(t.flag(150, "wr.rel"))
        if t.flag(250, "wr.dry"):
            a["corrections_only"] = True
        if mode == "content":
            if t.flag(400, "wr.len"):
                a["lenient"] = True
                if t.flag(400, "wr.salv"):
                    a["parse_error_policy"] = "salvage"
            if t.flag(300, "wr.mut"):
                a["mutations"] = {"STATUS": "ACTIVE", "EXTRA": ["a", "b"], "GONE": {"$op": "DELETE"}}
        if t.flag(500, "wr.schema"):
            a["schema"] = schema
            for flag in ("grammar_hint", "debug_grammar"):
                if t.flag(300, "wr." + flag):
                    a[flag] = True
        c["args"] = a
    elif api == "tool.eject":
        c["args"] = {"mode": t.pick(["canonical", "authoring", "executive", "developer"], "ej.mode"),
                     "format": t.pick(["octave", "json", "yaml", "markdown", "gbnf"], "ej.fmt")}
        if t.flag(100, "ej.template"):
            c["text"] = None
    elif api == "tool.compile_grammar":
        c["args"] = {"format": t.pick(["gbnf", "json_schema"], "cg.fmt")}
        c["route"] = t.pick(["schema", "content"], "cg.route")
        if c["route"] == "content" and dk not in ("contract",):
            c["text"] = doc_contract(t, m)
    elif api == "py.project":
        c["mode"] = t.pick(["canonical", "authoring", "executive", "developer"], "pj.mode")
    elif api == "py.coverage":
        # spec and skill documents with several overlapping / missing / novel section ids (the result lists come from sets)
        ids = t.shuffle(["1", "2", "3", "4", "5", "6", "7", "8", "9", "A", "B"], "cov.ids")
        spec_ids, skill_ids = ids[: 4 + t.choose(5, "cov.n1")], ids[2: 5 + t.choose(6, "cov.n2")]
        c["text"] = "===SPEC===\n" + "".join(f"§{i}::S{i}\n  X::1\n" for i in spec_ids) + "===END===\n"
        c["text2"] = "===SKILL===\n" + "".join(f"§{i}::K{i}\n  Y::2\n" for i in skill_ids) + "===END===\n"
    elif api == "cli":
        c["cmd"] = t.pick(["validate", "normalize", "eject", "seal", "validate_fix"], "cli.cmd")
    return c


def uses_generated_schema(c: dict) -> bool:
    return c.get("schema") not in PACKAGED_ONLY


# ---- canonical serialisation ------------------------------------------------------------------------------------


def dump(obj, depth=0):
    """JSON-able structure that keeps list and dict ORDER (ordering differences must show) but sorts sets."""
    if depth > 60:
        return "<deep>"
    if obj is None or isinstance(obj, (bool, int, float, str)):
        return obj
    if isinstance(obj, bytes):
        return {"$bytes": obj.hex()}
    if isinstance(obj, enum.Enum):
        return f"{type(obj).__name__}.{obj.name}"
    if isinstance(obj, (list, tuple)):
        return [dump(x, depth + 1) for x in obj]
    if isinstance(obj, dict):
        return {"$dict": [[dump(k, depth + 1), dump(v, depth + 1)] for k, v in obj.items()]}
    if isinstance(obj, (set, frozenset)):
        return {"$set": sorted((dump(x, depth + 1) for x in obj), key=lambda z: json.dumps(z, sort_keys=True, default=str))}
    if isinstance(obj, BaseException):
        return {"$exc": type(obj).__name__, "msg": str(obj)}
    if dataclasses.is_dataclass(obj) and not isinstance(obj, type):
        return {"$obj": type(obj).__name__, "f": [[f.name, dump(getattr(obj, f.name), depth + 1)] for f in dataclasses.fields(obj)]}
    if hasattr(obj, "__dict__"):
        return {"$obj": type(obj).__name__, "f": [[k, dump(v, depth + 1)] for k, v in vars(obj).items() if not k.startswith("__")]}
    if hasattr(obj, "__slots__"):
        return {"$obj": type(obj).__name__, "f": [[k, dump(getattr(obj, k, None), depth + 1)] for k in obj.__slots__]}
    return {"$repr": repr(obj)}


def mask(o, root: str | None):
    """Only two things are masked: routing timestamps (the property exempts them) and the sandbox root."""
    if isinstance(o, dict):
        out = {}
        for k, v in o.items():
            if k == "timestamp" and isinstance(v, str):
                out[k] = "<TS>"
            else:
                out[k] = mask(v, root)
        return out
    if isinstance(o, list):
        if len(o) == 2 and o[0] == "timestamp" and isinstance(o[1], str):
            return ["timestamp", "<TS>"]
        return [mask(x, root) for x in o]
    if isinstance(o, str) and root and root in o:
        return o.replace(root, "<ROOT>")
    return o


def serialise(result, root: str | None, c: dict | None = None) -> str:
    out = json.dumps(mask(result, root), ensure_ascii=False, indent=None, sort_keys=False, default=lambda x: {"$repr": repr(x)})
    if c is not None and c.get("rel") and c.get("api") == "tool.write":
        # the private directory of a relative-target call carries the call's id (twins of one call get their own): not part of
        # the input.  Where a relative target cannot be used safely (cwd '/') the call ran on the absolute spelling of the same
        # place; it is reported in the relative spelling so that it stays comparable with the golden run
        import re

        out = out.replace(f"<ROOT>/call{c['id']}/", "relw_N/")
        out = re.sub(r"relw_\d+(?:_\d+)?", "relw_N", out)
    return out


# ---- execution -----------------------------------------------------------------------------------------------------

_tools: dict = {}


def shared_tools():
    """One tool instance per server process, shared by all requests (server.py does the same)."""
    if not _tools:
        from octave_mcp.mcp.compile_grammar import CompileGrammarTool
        from octave_mcp.mcp.eject import EjectTool
        from octave_mcp.mcp.validate import ValidateTool
        from octave_mcp.mcp.write import WriteTool

        _tools.update(validate=ValidateTool(), write=WriteTool(), eject=EjectTool(), compile=CompileGrammarTool())
    return _tools


def _rel_ok() -> bool:
    """Relative targets are only used when the working directory is one of OUR scratch directories (never '/')."""
    cwd = os.getcwd()
    base = os.environ.get("VERIF_SCRATCH_BASE")
    return cwd.startswith("/dev/shm/ov") or bool(base and cwd.startswith(base.rstrip("/") + "/"))


def write_dir(c: dict, d: str) -> str:
    """Directory the write call works in: the call's private sandbox directory, or -- spelled RELATIVE to the working
    directory -- a private directory below the working directory."""
    if c.get("rel") and _rel_ok():
        return f"relw_{c['id']}_{os.getpid()}"  # worker processes share the working directories: one private directory per process
    return d


def _cleanup_rel(c: dict, d: str):
    if c.get("api") == "tool.write":
        wd = write_dir(c, d)
        if wd != d:
            shutil.rmtree(wd, ignore_errors=True)


def write_target(c: dict, d: str) -> str:
    wd = write_dir(c, d)
    ts = c.get("tstate", "file")
    if ts == "parent_file":
        return os.path.join(wd, "notes.md", "t.oct.md")
    if ts == "long":
        return os.path.join(wd, "L" * 300 + ".oct.md")
    return os.path.join(wd, "t.oct.md")


def prepare_sandbox(c: dict, sandbox: str) -> str:
    """A private, identically populated directory for this call.  Returns its path."""
    d = os.path.join(sandbox, f"call{c['id']}")
    if os.path.isdir(d):
        shutil.rmtree(d)
    os.makedirs(d)
    if c["api"] == "tool.write":
        wd = write_dir(c, d)
        if wd != d:
            if os.path.isdir(wd):
                shutil.rmtree(wd)
            os.makedirs(wd)
        ts = c.get("tstate", "file")
        if ts == "dir":
            os.makedirs(os.path.join(wd, "t.oct.md"))
            with open(os.path.join(wd, "t.oct.md", "inside.txt"), "w", encoding="utf-8") as f:
                f.write("a directory with an allowed extension\n")
        elif ts == "parent_file":
            with open(os.path.join(wd, "notes.md"), "w", encoding="utf-8") as f:
                f.write("a regular file where a directory is expected\n")
        elif ts == "file" and c.get("initial") is not None:
            with open(os.path.join(wd, "t.oct.md"), "w", encoding="utf-8") as f:
                f.write(c["initial"])
    if c["api"] in ("tool.validate_file", "cli"):
        with open(os.path.join(d, "in.oct.md"), "w", encoding="utf-8") as f:
            f.write(c["text"] or "")
    return d


def tool_coroutine(c: dict, d: str):
    """The coroutine a server would await for this call (tools only)."""
    tools = shared_tools()
    api = c["api"]
    if api == "tool.validate":
        return tools["validate"].execute(content=c["text"], schema=c["schema"], **c.get("args", {}))
    if api == "tool.validate_file":
        return tools["validate"].execute(file_path=os.path.join(d, "in.oct.md"), schema=c["schema"], **c.get("args", {}))
    if api == "tool.write":
        kw = dict(c.get("args", {}))
        if c["mode"] == "content":
            kw["content"] = c["text"]
        return tools["write"].execute(target_path=write_target(c, d), **kw)
    if api == "tool.eject":
        return tools["eject"].execute(content=c["text"], schema=c["schema"], **c.get("args", {}))
    if api == "tool.compile_grammar":
        if c.get("route") == "schema":
            return tools["compile"].execute(schema=c["schema"], **c.get("args", {}))
        return tools["compile"].execute(content=c["text"], **c.get("args", {}))
    return None


def finish_tool_result(c: dict, d: str, res):
    """What the server would send (json.dumps(result, indent=2)), plus -- for writes -- the hash of the file left on disk."""
    out = {"envelope": json.loads(json.dumps(res, indent=2, default=lambda x: {"$repr": repr(x)}))}
    if c["api"] == "tool.write":
        wd = write_dir(c, d)
        p = os.path.join(wd, "t.oct.md")
        if os.path.isdir(p):
            out["file_sha256"] = "<directory>"
        elif os.path.exists(p):
            with open(p, "rb") as f:
                out["file_sha256"] = hashlib.sha256(f.read()).hexdigest()
        else:
            out["file_sha256"] = None
        out["dir"] = sorted(os.listdir(wd))
        if wd != d:
            shutil.rmtree(wd, ignore_errors=True)
    return out


def exec_py(c: dict, d: str):
    api = c["api"]
    text = c["text"] or ""
    from octave_mcp.core.emitter import emit
    from octave_mcp.core.lexer import tokenize
    from octave_mcp.core.parser import parse, parse_with_warnings

    if api == "py.tokenize":
        toks, repairs = tokenize(text)
        return {"tokens": dump(toks), "repairs": dump(repairs)}
    if api == "py.parse":
        return {"doc": dump(parse(text))}
    if api == "py.parse_with_warnings":
        doc, w = parse_with_warnings(text)
        return {"doc": dump(doc), "warnings": dump(w)}
    if api == "py.emit":
        doc, w = parse_with_warnings(text)
        e1 = emit(doc)
        return {"emit": e1, "emit2": emit(parse(e1)), "sha": hashlib.sha256(e1.encode()).hexdigest()}
    if api in ("py.validate", "py.repair"):
        from octave_mcp.core.repair import repair
        from octave_mcp.core.validator import Validator
        from octave_mcp.schemas.loader import get_builtin_schema, load_schema_by_name

        doc, _ = parse_with_warnings(text)
        sd = load_schema_by_name(c["schema"])
        ss = {sd.name: sd} if sd is not None and sd.fields else None
        v = Validator(schema=get_builtin_schema(c["schema"]))
        errs = v.validate(doc, strict=False, section_schemas=ss)
        out = {"errors": dump(errs), "routing": v.routing_log.to_dict()}
        if api == "py.repair":
            doc2, log = repair(doc, errs, fix=True, schema=sd)
            out["repair_log"] = dump(log)
            out["repaired"] = emit(doc2)
            out["errors_after"] = dump(v.validate(doc2, strict=True, section_schemas=ss))
        return out
    if api == "py.project":
        from octave_mcp.core.projector import project

        r = project(parse(text), c.get("mode", "canonical"))
        return {"output": r.output, "lossy": r.lossy, "omitted": dump(r.fields_omitted)}
    if api == "py.seal":
        from octave_mcp.core.sealer import seal_document, verify_seal

        sealed = seal_document(parse(text))
        out_text = emit(sealed)
        ver = verify_seal(parse(out_text))
        return {"sealed": out_text, "verify": dump(ver)}
    if api == "py.gbnf_schema":
        from octave_mcp.core.gbnf_compiler import GBNFCompiler
        from octave_mcp.schemas.loader import load_schema_by_name

        sd = load_schema_by_name(c["schema"])
        if sd is None:
            return {"schema": None}
        comp = GBNFCompiler()
        return {"gbnf_env": comp.compile_schema(sd, include_envelope=True), "gbnf": GBNFCompiler().compile_schema(sd, include_envelope=False),
                "again": comp.compile_schema(sd, include_envelope=True)}
    if api == "py.gbnf_meta":
        from octave_mcp.core.gbnf_compiler import compile_gbnf_from_meta

        doc = parse(text)
        return {"gbnf": compile_gbnf_from_meta(doc.meta)}
    if api == "py.coverage":
        from octave_mcp.core.coverage_mapper import compute_coverage, format_coverage_report

        r = compute_coverage(parse(text), parse(c.get("text2") or ""))
        return {"coverage": dump(r), "report": format_coverage_report(r)}
    if api == "py.load_schema":
        from octave_mcp.schemas.loader import load_builtin_schemas, load_schema_by_name

        sd = load_schema_by_name(c["schema"])
        b = load_builtin_schemas()
        return {"schema": dump(sd), "builtin": [[k, dump(b[k])] for k in sorted(b)]}
    if api == "cli":
        from .common import run_cli

        inp = os.path.join(d, "in.oct.md")
        cmd = c["cmd"]
        if cmd == "validate":
            args = ["validate", inp, "--schema", c["schema"]]
        elif cmd == "validate_fix":
            args = ["validate", inp, "--schema", c["schema"], "--fix"]
        elif cmd == "normalize":
            args = ["normalize", inp]
        elif cmd == "eject":
            args = ["eject", inp, "--mode", "executive", "--format", "json"]
        else:
            args = ["seal", inp]
        return run_cli(args)
    raise ValueError(api)


def exec_call_sync(c: dict, sandbox: str) -> str:
    """Execute one call to completion without an event loop; returns the serialised, masked result."""
    d = prepare_sandbox(c, sandbox)
    try:
        coro = tool_coroutine(c, d)
        if coro is not None:
            from .common import drive

            res = finish_tool_result(c, d, drive(coro))
        else:
            res = {"result": exec_py(c, d)}
    except RecursionError as e:
        res = {"$exc": "RecursionError", "msg": str(e)[:80]}
    except Exception as e:  # noqa: BLE001 -- raising is a result too (same input, same exception)
        res = {"$exc": type(e).__name__, "msg": str(e)}
    finally:
        _cleanup_rel(c, d)
    return serialise(res, sandbox, c)


async def exec_call_async(c: dict, sandbox: str) -> str:
    d = prepare_sandbox(c, sandbox)
    try:
        coro = tool_coroutine(c, d)
        if coro is not None:
            res = finish_tool_result(c, d, await coro)
        else:
            res = {"result": exec_py(c, d)}
    except RecursionError as e:
        res = {"$exc": "RecursionError", "msg": str(e)[:80]}
    except Exception as e:  # noqa: BLE001
        res = {"$exc": type(e).__name__, "msg": str(e)}
    finally:
        _cleanup_rel(c, d)
    return serialise(res, sandbox, c)


# ---- clock seam ----------------------------------------------------------------------------------------------------


class SimClock:
    def __init__(self, epoch: float, jumps: list | None = None):
        self.now = float(epoch)
        self.jumps = list(jumps or [])  # deltas applied on successive reads (forwards and backwards)
        self.reads = 0

    def read(self) -> float:
        self.reads += 1
        if self.jumps:
            self.now += self.jumps.pop(0)
        else:
            self.now += 0.000123
        return self.now


_clock: SimClock | None = None
_clock_installed = False


_clock_proxies = None
_clock_patched: set = set()


def install_clock(clock: SimClock):
    """Rebind the names through which the repository's own modules reach a clock (DESIGN 2.4).

    Modules are (re)scanned on EVERY call: a package that imports its submodules lazily (PEP 562 ``__getattr__``, imports inside
    functions) has not loaded them all when the clock is first installed -- a module that arrives later would otherwise keep
    the real clock (found through the behaviour-preserving change r10g: hydration stamps differed between a reference run and a
    faulted run, which C16 reported as wrong bytes)."""
    global _clock, _clock_installed, _clock_proxies
    _clock = clock
    import datetime as _dt
    import sys
    import time as _time
    import types

    if _clock_proxies is None:
        class SimDateTime(_dt.datetime):
            @classmethod
            def now(cls, tz=None):
                ts = _clock.read()
                base = _dt.datetime.fromtimestamp(ts, tz=_dt.UTC)
                if tz is None:
                    return cls.fromtimestamp(ts)
                return base.astimezone(tz)

            @classmethod
            def utcnow(cls):
                return _dt.datetime.fromtimestamp(_clock.read(), tz=_dt.UTC).replace(tzinfo=None)

            @classmethod
            def today(cls):
                return cls.now()

        timeproxy = types.ModuleType("time")
        timeproxy.__dict__.update({k: getattr(_time, k) for k in dir(_time) if not k.startswith("__")})
        timeproxy.time = lambda: _clock.read()
        timeproxy.monotonic = lambda: _clock.read()
        timeproxy.perf_counter = lambda: _clock.read()
        timeproxy.time_ns = lambda: int(_clock.read() * 1e9)
        timeproxy.monotonic_ns = lambda: int(_clock.read() * 1e9)
        timeproxy.perf_counter_ns = lambda: int(_clock.read() * 1e9)
        dtproxy = types.ModuleType("datetime")
        dtproxy.__dict__.update({k: getattr(_dt, k) for k in dir(_dt) if not k.startswith("__")})
        dtproxy.datetime = SimDateTime
        _clock_proxies = (SimDateTime, timeproxy, dtproxy)
        try:
            import_everything()
        except Exception:  # noqa: BLE001
            pass
    SimDateTime, timeproxy, dtproxy = _clock_proxies
    for name, mod in list(sys.modules.items()):
        if not name.startswith("octave_mcp") or mod is None or name in _clock_patched:
            continue
        _clock_patched.add(name)
        for attr, val in list(vars(mod).items()):
            if val is _dt.datetime:
                setattr(mod, attr, SimDateTime)
            elif val is _dt:
                setattr(mod, attr, dtproxy)
            elif val is _time:
                setattr(mod, attr, timeproxy)
    _clock_installed = True


def import_everything():
    """Import every module of the package so that the clock seam sees all of them (and import order is fixed)."""
    import importlib
    import pkgutil

    import octave_mcp

    for m in sorted(pkgutil.walk_packages(octave_mcp.__path__, "octave_mcp."), key=lambda x: x.name):
        if m.name.endswith(("http_transport", "mcp.server", "__main__")) or ".integrations" in m.name:
            continue
        try:
            importlib.import_module(m.name)
        except Exception:  # noqa: BLE001 -- optional deps
            pass
