"""C16 -- writes are all-or-nothing at every interruption point.

System simulated: one writer process (sometimes two) against a private sandbox
directory; every file-system call boundary of the real write path is a kill
point, a power-loss point, an asynchronous-exception point and an injectable
failure.  See DESIGN.md section 3.
"""

from __future__ import annotations

import base64
import copy
import os
import time

from . import docs, fsmodel, seam
from .common import drive, run_cli, sha_bytes, sha_text
from .runner import Stats, digest
from .tape import Tape, derive_seed

PROP = "C16"
LEVEL = "fault_enumeration"

TARGET_NAME = "t.oct.md"


# --------------------------------------------------------------------------- #
# scenarios
# --------------------------------------------------------------------------- #

# the scenarios the property's quantifier names, as a fixed matrix (always swept)
MATRIX = [
    dict(entry="tool", mode="content", initial="absent", base_hash="none"),
    dict(entry="tool", mode="content", initial="canonical", base_hash="none"),
    dict(entry="tool", mode="content", initial="canonical", base_hash="current"),
    dict(entry="tool", mode="content", initial="canonical", base_hash="stale"),
    dict(entry="tool", mode="content", initial="absent", base_hash="none", parent_missing=1),
    dict(entry="tool", mode="content", initial="absent", base_hash="none", parent_missing=2),
    dict(entry="tool", mode="content", initial="canonical", base_hash="none", fmode=0o444),
    dict(entry="tool", mode="content", initial="frontmatter", base_hash="none"),
    dict(entry="tool", mode="content", initial="frontmatter", base_hash="current"),
    dict(entry="tool", mode="content", initial="unparseable", base_hash="none"),
    dict(entry="tool", mode="content", initial="empty", base_hash="none"),
    dict(entry="tool", mode="content", initial="nonutf8", base_hash="none"),
    dict(entry="tool", mode="content", initial="canonical", base_hash="none", args={"lenient": True}, new_style="lenient"),
    dict(entry="tool", mode="content", initial="canonical", base_hash="none", args={"schema": "META"}),
    dict(entry="tool", mode="content", initial="canonical", base_hash="none", args={"corrections_only": True}),
    dict(entry="tool", mode="changes", initial="canonical", base_hash="none"),
    dict(entry="tool", mode="changes", initial="canonical", base_hash="current", fmode=0o600),
    dict(entry="tool", mode="changes", initial="frontmatter", base_hash="none"),
    dict(entry="tool", mode="normalize", initial="lenient", base_hash="none"),
    dict(entry="tool", mode="normalize", initial="lenient", base_hash="current", fmode=0o444),
    dict(entry="tool", mode="normalize", initial="canonical", base_hash="none"),
    dict(entry="atomic", mode="content", initial="absent", base_hash="none"),
    dict(entry="atomic", mode="content", initial="canonical", base_hash="current", fmode=0o640),
    dict(entry="atomic", mode="content", initial="canonical", base_hash="none", fmode=0o444),
    dict(entry="atomic", mode="content", initial="absent", base_hash="none", parent_missing=1),
    dict(entry="cli_write", mode="content", initial="absent", base_hash="none"),
    dict(entry="cli_write", mode="content", initial="canonical", base_hash="current"),
    dict(entry="cli_write", mode="changes", initial="canonical", base_hash="none", fmode=0o755),
    dict(entry="cli_write", mode="changes", initial="canonical", base_hash="current"),
    dict(entry="cli_normalize", mode="content", initial="canonical", base_hash="none"),
    dict(entry="cli_normalize", mode="content", initial="absent", base_hash="none", parent_missing=1),
    dict(entry="cli_seal", mode="content", initial="canonical", base_hash="none"),
    dict(entry="cli_seal", mode="content", initial="absent", base_hash="none"),
    dict(entry="tool", mode="content", initial="canonical", base_hash="none", args={"lenient": True, "schema": "TEST_HOLOGRAPHIC"},
         new_style="holo_repairable"),
    dict(entry="tool", mode="content", initial="frontmatter", base_hash="current", args={"lenient": True, "schema": "TEST_HOLOGRAPHIC",
                                                                                         "grammar_hint": True}, new_style="holo_repairable"),
    dict(entry="cli_write", mode="content", initial="canonical", base_hash="current", stdin=True),
    dict(entry="cli_write", mode="content", initial="absent", base_hash="none", stdin=True, new_style="unicode"),
    dict(entry="tool", mode="changes", initial="crlf", base_hash="current"),
    dict(entry="tool", mode="normalize", initial="crlf", base_hash="current"),
    dict(entry="tool", mode="content", initial="crlf_frontmatter", base_hash="current", new_style="unicode"),
    dict(entry="cli_write", mode="changes", initial="crlf", base_hash="current"),
    dict(entry="tool", mode="content", initial="canonical", base_hash="none", new_style="longline"),
    dict(entry="tool", mode="content", initial="canonical", base_hash="none", new_style="nonl"),
    dict(entry="tool", mode="content", initial="canonical", base_hash="current", new_style="oddchars"),
    dict(entry="atomic", mode="content", initial="absent", base_hash="none", new_style="oddchars"),
    dict(entry="cli_write", mode="content", initial="canonical", base_hash="none", stdin=True, new_style="oddchars"),
    dict(entry="tool", mode="changes", initial="oddchars", base_hash="current"),
    dict(entry="cli_normalize", mode="content", initial="oddchars", base_hash="none", inplace=True),
    dict(entry="cli_hydrate", mode="content", initial="absent", base_hash="none"),
    dict(entry="cli_hydrate", mode="content", initial="canonical", base_hash="none", fmode=0o600),
    # unusual targets and debris
    dict(entry="tool", mode="content", initial="absent", base_hash="none", odd="target_is_dir"),
    dict(entry="atomic", mode="content", initial="absent", base_hash="none", odd="target_is_dir"),
    dict(entry="tool", mode="content", initial="absent", base_hash="none", odd="parent_is_file"),
    dict(entry="cli_write", mode="content", initial="absent", base_hash="none", odd="parent_is_file"),
    dict(entry="tool", mode="content", initial="canonical", base_hash="current", odd="debris"),
    dict(entry="atomic", mode="content", initial="canonical", base_hash="none", odd="debris"),
    dict(entry="tool", mode="content", initial="absent", base_hash="none", odd="long_name"),
    dict(entry="tool", mode="changes", initial="canonical", base_hash="none", odd="debris"),
    # unusual but legal attributes of the target: several hard links; set-id / sticky / no-permission mode bits
    dict(entry="tool", mode="content", initial="canonical", base_hash="current", odd="hardlinked"),
    dict(entry="atomic", mode="content", initial="canonical", base_hash="none", odd="hardlinked", fmode=0o444),
    dict(entry="cli_write", mode="changes", initial="canonical", base_hash="none", odd="hardlinked"),
    dict(entry="tool", mode="normalize", initial="lenient", base_hash="none", odd="hardlinked", fmode=0o2664),
    dict(entry="tool", mode="content", initial="canonical", base_hash="none", fmode=0o4755),
    dict(entry="atomic", mode="content", initial="canonical", base_hash="current", fmode=0o1600),
    dict(entry="tool", mode="changes", initial="canonical", base_hash="none", fmode=0o000),
    dict(entry="cli_write", mode="content", initial="canonical", base_hash="none", fmode=0o200),
    # the same document again, over a file that holds it with other line endings
    dict(entry="cli_write", mode="content", initial="crlf", base_hash="none", resend_initial=True),
    dict(entry="cli_write", mode="content", initial="crlf", base_hash="none", resend_initial=True, stdin=True),
    dict(entry="tool", mode="content", initial="crlf", base_hash="none", resend_initial=True),
    dict(entry="atomic", mode="content", initial="crlf", base_hash="none", resend_initial=True),
    dict(entry="cli_normalize", mode="content", initial="crlf", base_hash="none", inplace=True),
    # command-line only: output == input
    dict(entry="cli_normalize", mode="content", initial="lenient", base_hash="none", inplace=True),
    dict(entry="cli_seal", mode="content", initial="canonical", base_hash="none", inplace=True, fmode=0o640),
    dict(entry="cli_normalize", mode="content", initial="canonical", base_hash="none", inplace=True, fmode=0o444),
    # sizes on the far side of every plausible threshold (8 KiB buffers, 64 KiB pipes/slices, 128 KiB): fast paths and
    # fallbacks that only apply to big -- or only to small -- content
    dict(entry="tool", mode="content", initial="canonical", base_hash="current", new_style="huge"),
    dict(entry="atomic", mode="content", initial="huge", base_hash="none"),
    dict(entry="cli_write", mode="content", initial="over64k", base_hash="none", stdin=True, new_style="huge"),
    dict(entry="tool", mode="changes", initial="huge", base_hash="current", fmode=0o640),
    dict(entry="tool", mode="content", initial="absent", base_hash="none", new_style="over64k", parent_missing=1),
    # multi-byte characters across every slice boundary; documents whose encoding is exactly at / one beside the usual thresholds
    dict(entry="tool", mode="content", initial="canonical", base_hash="current", new_style="mbhuge"),
    dict(entry="atomic", mode="content", initial="absent", base_hash="none", new_style="mbhuge"),
    dict(entry="cli_write", mode="content", initial="canonical", base_hash="none", stdin=True, new_style="mbhuge"),
    dict(entry="tool", mode="content", initial="canonical", base_hash="none", new_style="exact:8192:mb"),
    dict(entry="atomic", mode="content", initial="canonical", base_hash="none", new_style="exact:8193:mb"),
    dict(entry="tool", mode="content", initial="absent", base_hash="none", new_style="exact:65536:mb"),
    dict(entry="atomic", mode="content", initial="absent", base_hash="none", new_style="exact:65537:ascii"),
    dict(entry="tool", mode="content", initial="canonical", base_hash="none", new_style="exact:4096:ascii"),
    dict(entry="cli_write", mode="content", initial="absent", base_hash="none", stdin=True, new_style="exact:131072:mb"),
]


def gen_scenario(t: Tape, idx: int, tier: str) -> dict:
    """Swarm-style scenario: the first MATRIX entries are the named ones, the rest are drawn."""
    if idx < len(MATRIX):
        sc = dict(MATRIX[idx])
    else:
        entry = t.weighted([("tool", 12), ("atomic", 4), ("cli_write", 4), ("cli_normalize", 2), ("cli_seal", 2), ("cli_hydrate", 1)],
                           "sc.entry")
        sc = {"entry": entry}
        if entry == "tool":
            sc["mode"] = t.weighted([("content", 5), ("changes", 3), ("normalize", 2)], "sc.mode")
        elif entry == "cli_write":
            sc["mode"] = t.weighted([("content", 3), ("changes", 2)], "sc.mode")
        else:
            sc["mode"] = "content"
        if sc["mode"] in ("changes", "normalize"):
            sc["initial"] = t.weighted([("canonical", 4), ("lenient", 2), ("frontmatter", 2), ("corpus", 3),
                                        ("unparseable", 1), ("nonutf8", 1), ("big", 1), ("crlf", 2), ("crlf_frontmatter", 1), ("huge", 1)], "sc.init")
        else:
            sc["initial"] = t.weighted([("canonical", 4), ("absent", 3), ("lenient", 1), ("frontmatter", 2),
                                        ("corpus", 2), ("unparseable", 1), ("empty", 1), ("nonutf8", 1), ("big", 1), ("huge", 1), ("crlf", 1),
                                        ("crlf_frontmatter", 1)], "sc.init")
        sc["base_hash"] = t.weighted([("none", 4), ("current", 4), ("stale", 1)], "sc.bh")
        if sc["initial"] == "absent":
            sc["parent_missing"] = t.weighted([(0, 3), (1, 2), (2, 1)], "sc.pm")
        sc["fmode"] = t.pick([0o644, 0o600, 0o444, 0o755, 0o640, 0o664, 0o2664, 0o4755, 0o1600, 0o000, 0o200, 0o6711], "sc.fmode")
        if entry == "tool" and sc["mode"] == "content":
            a = {}
            if t.flag(250, "sc.len"):
                a["lenient"] = True
                sc["new_style"] = t.pick(["lenient", "canonical", "holo_repairable"], "sc.ns")
                if sc["new_style"] == "holo_repairable":
                    a["schema"] = "TEST_HOLOGRAPHIC"
                if t.flag(300, "sc.salv"):
                    a["parse_error_policy"] = "salvage"
                    sc["new_style"] = t.pick(["lenient", "bad"], "sc.ns2")
            if t.flag(200, "sc.schema") and "schema" not in a:
                a["schema"] = t.pick(["META", "SKILL", "NOPE", "TEST_HOLOGRAPHIC"], "sc.sn")
                if t.flag(400, "sc.gh"):
                    a["grammar_hint"] = True
            if t.flag(150, "sc.mut"):
                a["mutations"] = {"STATUS": "ACTIVE", "EXTRA": ["a", "b"]}
            if t.flag(60, "sc.dry"):
                a["corrections_only"] = True
            if a:
                sc["args"] = a
            if not a.get("lenient"):
                sc["new_style"] = t.weighted([("canonical", 5), ("frontmatter", 1), ("corpus", 2), ("big", 1), ("huge", 1), ("unicode", 2),
                                              ("longline", 1), ("nonl", 1), ("trail", 1), ("oddchars", 1), ("mbhuge", 1),
                                              ("exact:8191:mb", 1), ("exact:65535:mb", 1), ("exact:16384:mb", 1)], "sc.ns3")
        if entry == "tool" and sc["mode"] != "content" and t.flag(60, "sc.dry2"):
            sc["args"] = {"corrections_only": True}
        if t.flag(80, "sc.odd"):
            sc["odd"] = t.pick(["target_is_dir", "parent_is_file", "debris", "long_name", "hardlinked"], "sc.oddk")
            if sc["odd"] == "hardlinked" and sc["initial"] == "absent":
                sc["odd"] = "debris"
            if sc["odd"] in ("target_is_dir", "parent_is_file", "long_name"):
                sc["initial"] = "absent"
                sc["parent_missing"] = 0
                if sc["mode"] != "content":
                    sc["mode"] = "content"
                    sc["new_style"] = "canonical"
        if entry in ("cli_normalize", "cli_seal") and sc["initial"] in ("canonical", "lenient", "frontmatter", "corpus", "crlf", "big") \
                and not sc.get("odd") and t.choose(3, "sc.inplace") == 1:
            sc["inplace"] = True
        if sc["mode"] == "content" and sc["initial"] in ("crlf", "crlf_frontmatter", "canonical") and t.choose(6, "sc.resend") == 1:
            sc["resend_initial"] = True
        if entry == "cli_write" and sc["mode"] == "content":
            sc["stdin"] = bool(t.choose(2, "sc.stdin"))
            sc["new_style"] = t.pick(["canonical", "unicode", "nonl"], "sc.cns")
    sc.setdefault("parent_missing", 0)
    sc.setdefault("fmode", 0o644)
    sc.setdefault("args", {})
    sc.setdefault("new_style", "canonical")
    sc["siblings"] = True
    # concrete texts -- explicit in the scenario so a replay file is self-contained
    m = f"{idx:x}"
    big = 30 if tier == "quick" else t.pick([30, 300, 2400], "sc.big")
    sc["initial_data"] = _enc(_initial_bytes(t, sc["initial"], "I" + m, big))
    if sc["mode"] == "content":
        sc["new_text"] = _new_text(t, sc["new_style"], "N" + m, big)
        if sc.get("resend_initial") and sc["initial_data"] is not None:
            # the document the file already holds is sent again (as text: line endings and a BOM do not travel): "nothing to
            # do" shortcuts that compare TEXT keep bytes on disk that do not hash to what they report
            try:
                sc["new_text"] = _dec(sc["initial_data"]).decode("utf-8").replace("\r\n", "\n").replace("\r", "\n")
            except UnicodeDecodeError:
                pass
    elif sc["mode"] == "changes":
        sc["changes"] = t.pick([
            {"MARK": "changed_" + m},
            {"META.STATUS": "ACTIVE", "ADDED": ["p", "q", 3]},
            {"K0": {"$op": "DELETE"}, "MARK": "c" + m},
            {"META": {"VERSION": "2.0"}, "NEWKEY": None},
        ], "sc.changes")
    sc["bh"] = base_hash_value(sc)
    return sc


def _initial_bytes(t: Tape, kind: str, marker: str, big: int) -> bytes | None:
    if kind == "absent":
        return None
    if kind == "canonical":
        return docs.canonical(docs.gen_doc(t, marker)).encode()
    if kind == "lenient":
        return docs.gen_doc(t, marker, "lenient").encode()
    if kind == "frontmatter":
        return docs.gen_doc(t, marker, "frontmatter").encode()
    if kind == "crlf":
        return docs.canonical(docs.gen_doc(t, marker)).replace("\n", "\r\n").encode()
    if kind == "crlf_frontmatter":
        return docs.gen_doc(t, marker, "frontmatter").replace("\n", "\r\n").encode()
    if kind == "corpus":
        c = docs.corpus()
        return c[t.choose(len(c), "corpus")][1].encode()
    if kind == "big":
        return docs.gen_doc(t, marker, "canonical", size=big).encode()
    if kind in ("huge", "over64k"):
        return docs.gen_doc(t, marker, "canonical", size=1500 if kind == "huge" else 700).encode()
    if kind == "oddchars":
        return docs.gen_doc(t, marker, "oddchars").encode()
    if kind == "unparseable":
        return t.pick(docs.UNPARSEABLE, "unp").encode()
    if kind == "empty":
        return b""
    if kind == "nonutf8":
        return b"===DOC===\nA::\xff\xfe\n===END===\n"
    raise ValueError(kind)


def _new_text(t: Tape, style: str, marker: str, big: int) -> str:
    if style == "corpus":
        c = docs.corpus()
        return c[t.choose(len(c), "corpus")][1]
    if style == "big":
        return docs.gen_doc(t, marker, "canonical", size=big)
    if style in ("huge", "over64k"):
        return docs.gen_doc(t, marker, "canonical", size=1500 if style == "huge" else 700)
    if style == "mbhuge":
        return docs.gen_doc(t, marker, "mbpad", size=600)  # ~100 KB, multi-byte characters across every slice boundary
    if style.startswith("exact:"):
        _, n_, mb_ = style.split(":")
        return docs.exact_size_doc(marker, int(n_), mb_ == "mb")
    if style == "bad":
        return docs.gen_doc(t, marker, "lenient") + 'BROKEN::"unterminated\n'
    return docs.gen_doc(t, marker, style)


def _enc(b: bytes | None):
    if b is None:
        return None
    try:
        return {"t": b.decode("utf-8")}
    except UnicodeDecodeError:
        return {"b64": base64.b64encode(b).decode()}


def _dec(d) -> bytes | None:
    if d is None:
        return None
    if "t" in d:
        return d["t"].encode("utf-8")
    return base64.b64decode(d["b64"])


def gen_knobs(t: Tape) -> dict:
    return {
        "wchunk": t.pick([1 << 16, 4096, 64, 16, 7, 1 << 20], "k.wchunk"),
        "userbuf": t.pick([8192, 64, 1 << 20, 0], "k.userbuf"),
        "rchunk": t.pick([1 << 16, 4096, 32], "k.rchunk"),
        "tmp_shared": bool(t.choose(2, "k.tmp")),
        "switch_permille": t.pick([300, 50, 700], "k.sw"),
        "sched": t.pick(["uniform", "focus"], "k.sched"),
    }


# --------------------------------------------------------------------------- #
# realisation of a scenario on the file system
# --------------------------------------------------------------------------- #


def layout(sc: dict):
    """(tree spec, target rel path)"""
    spec = [("d", "sb", 0o755)]
    sub = ["", "p1/", "p1/p2/"][sc.get("parent_missing", 0)]
    odd = sc.get("odd")
    name = TARGET_NAME if odd != "long_name" else ("n" * 240 + ".oct.md")
    if odd == "parent_is_file":
        sub = "pfile/"
        spec.append(("f", "sb/pfile", b"i am a regular file, not a directory\n", 0o644))
    target_rel = "sb/" + sub + name
    init = _dec(sc.get("initial_data"))
    if odd == "target_is_dir":
        spec.append(("d", target_rel, 0o755))
        spec.append(("f", target_rel + "/inside.txt", b"content of the directory\n", 0o644))
    elif init is not None:
        spec.append(("f", target_rel, init, sc.get("fmode", 0o644)))
    if odd == "hardlinked" and init is not None:
        # the target's inode has two more names (one beside it, one elsewhere): os.replace gives the target a new inode and
        # leaves the other names alone; anything that tries to keep the links alive has to write in place
        spec.append(("h", "sb/" + sub + "alias.oct.md", target_rel))
        spec.append(("h", "sb/elsewhere/alias2.md", target_rel))
    if odd == "debris":
        # what a crashed earlier writer leaves: temp files next to the target, one of them under the very name the next
        # writer's (deterministic) name sequence starts with
        for nm in ("tmpa0n000001.tmp", "tmps0000001.tmp", "tmpzzzzzzzz.tmp", ".t.oct.md.tmp"):
            # LONGER than anything the next writer produces: a staging file that is reused without truncation keeps a tail
            spec.append(("f", "sb/" + sub + nm, b"half written by a writer that died\n" + b"".join(
                b"OLD%04d::\"orphaned tail of a much longer document\"\n" % i for i in range(400)), 0o600))
        # files of the USER whose names merely look like staging, backup, lock or editor files of the target: a clean-up that
        # works by pattern (or a "helpful" sweep of stale temporaries) must not touch them (A4)
        for nm in ("t.oct.md.tmp", "t.oct.md.bak", "t.oct.md~", ".t.oct.md.swp", ".t.oct.md.lock", "t.oct.md.orig", "tmp.tmp",
                   ".octave-write.lock", "t.oct.md.new"):
            spec.append(("f", "sb/" + sub + nm, b"mine, not yours: " + nm.encode() + b"\n", 0o640))
    if sc.get("siblings"):
        spec.append(("f", "sb/sibling.oct.md", b"===SIB===\nS::1\n===END===\n", 0o644))
        spec.append(("f", "sb/notes.txt", b"do not touch\n", 0o600))
        spec.append(("d", "sb/subdir", 0o750))
        spec.append(("f", "sb/subdir/inner.md", b"inner\n", 0o644))
    if sc["entry"] in ("cli_normalize", "cli_seal"):
        spec.append(("f", "sb/source.oct.md", (sc.get("new_text") or "").encode(), 0o644))
    if sc["entry"] == "cli_hydrate":
        src, vocab = hydration_fixture()
        spec.append(("f", "sb/hsrc/source.oct.md", src, 0o644))
        spec.append(("f", "sb/hsrc/vocabulary.oct.md", vocab, 0o644))
    return spec, target_rel


_hyd = None


def hydration_fixture():
    global _hyd
    if _hyd is None:
        d = os.path.join(docs.REPO, "tests", "fixtures", "hydration")
        with open(os.path.join(d, "source.oct.md"), "rb") as f:
            a = f.read()
        with open(os.path.join(d, "vocabulary.oct.md"), "rb") as f:
            b = f.read()
        _hyd = (a, b)
    return _hyd


def base_hash_value(sc: dict, which: str | None = None):
    which = which or sc.get("base_hash", "none")
    if which == "none":
        return None
    init = _dec(sc.get("initial_data"))
    if which == "current":
        if init is None:
            return sha_text("")
        try:
            # the tools' own notion of the file's hash: the text as read in universal-newline mode
            return sha_text(init.decode("utf-8").replace("\r\n", "\n").replace("\r", "\n"))
        except UnicodeDecodeError:
            return sha_bytes(init)
    if which == "stale":
        return sha_text("stale content that was never on disk\n")
    raise ValueError(which)


def make_call(sc: dict, root: str, target_rel: str, writer: dict | None = None):
    """Return (fn, classify) for one writer.  ``writer`` overrides mode/new_text/base_hash (second writer)."""
    w = dict(sc)
    if writer:
        w.update(writer)
    target = os.path.join(root, target_rel)
    entry = w["entry"]
    bh = w.get("bh")
    if entry == "tool":
        from octave_mcp.mcp.write import WriteTool

        kwargs = {"target_path": target}
        if w["mode"] == "content":
            kwargs["content"] = w["new_text"]
        elif w["mode"] == "changes":
            kwargs["changes"] = copy.deepcopy(w["changes"])
        if bh is not None:
            kwargs["base_hash"] = bh
        kwargs.update(copy.deepcopy(w.get("args") or {}))
        tool = WriteTool()
        return lambda: drive(tool.execute(**kwargs))
    if entry == "atomic":
        from octave_mcp.core.file_ops import atomic_write_octave

        text = docs_canonical_or_raw(w["new_text"])
        return lambda: atomic_write_octave(target, text, bh)
    if entry == "cli_write":
        import json

        args = ["write", target]
        stdin_text = None
        if w["mode"] == "content":
            if w.get("stdin"):
                args += ["--stdin"]
                stdin_text = w["new_text"]
            else:
                args += ["--content", w["new_text"]]
        else:
            args += ["--changes", json.dumps(w["changes"])]
        if bh is not None:
            args += ["--base-hash", bh]
        return lambda: run_cli(args, stdin_text)
    if entry in ("cli_normalize", "cli_seal"):
        # in place: the output names the very file that is read (a CLI-only situation; "skip the temp file, it is the same
        # file anyway" lives here)
        src = target if w.get("inplace") else os.path.join(root, "sb/source.oct.md")
        args = [entry[4:], src, "-o", target]
        return lambda: run_cli(args)
    if entry == "cli_hydrate":
        args = ["hydrate", os.path.join(root, "sb/hsrc/source.oct.md"), "--mapping",
                "@test/vocabulary=" + os.path.join(root, "sb/hsrc/vocabulary.oct.md"), "-o", target]

        def call():
            # the hydrated text embeds HYDRATION_TIME: bind the hydrator's clock to the simulated one, restarted per run,
            # so that a reference run and a faulted run of the same scenario produce the same bytes
            from . import c06_calls

            with seam.passthrough():
                c06_calls.install_clock(c06_calls.SimClock(1_700_000_000.0))
            return run_cli(args)

        return call
    raise ValueError(entry)


_canon_cache: dict = {}


def docs_canonical_or_raw(text: str) -> str:
    k = sha_text(text)
    if k not in _canon_cache:
        try:
            _canon_cache[k] = docs.canonical(text)
        except Exception:
            _canon_cache[k] = text
        if len(_canon_cache) > 256:
            _canon_cache.pop(next(iter(_canon_cache)))
    return _canon_cache[k]


def classify(entry: str, actor) -> tuple[str, str | None]:
    """('success'|'error'|'crash'|'raised', canonical_hash|None)"""
    if actor.outcome in ("killed", "interrupted"):
        return "crash", None
    if actor.outcome == "raised":
        return "raised", None
    r = actor.result
    if entry.startswith("cli"):
        if r["exit"] == 0:
            h = None
            for kind, msg in r["out"]:
                if msg.startswith("canonical_hash: "):
                    h = msg.split(": ", 1)[1].strip()
            return "success", h
        return "error", None
    if isinstance(r, dict) and r.get("status") == "success":
        return "success", r.get("canonical_hash")
    return "error", None


# --------------------------------------------------------------------------- #
# running one case
# --------------------------------------------------------------------------- #

_ref_cache: dict = {}


def writers_of(sc: dict) -> list:
    return [None] + ([sc["second"]] if sc.get("second") else [])


def entry_of(sc: dict, w: dict | None) -> str:
    return (w or {}).get("entry", sc["entry"])


def _simulate(case: dict, faults, fault_cfg, tape: Tape, ftape: Tape | None = None, initial_override=None,
              writers=None, tag="run", root=None):
    """Build the tree, run the actors, return everything the oracle needs."""
    sc = case["scenario"]
    if initial_override is not None:
        sc = dict(sc)
        sc["initial_data"] = initial_override
    root = root or fsmodel.fresh_root(tag)
    spec, target_rel = layout(sc)
    fsmodel.build_tree(root, spec)
    target = os.path.join(root, target_rel)
    before = fsmodel.snapshot(root, with_ino=True)
    k = seam.Knobs(**{**case.get("knobs", {}), "step_cap": case.get("step_cap", 6000)})
    sim = seam.Simulation(root, tape, k, faults=faults, fault_cfg=fault_cfg, focus_paths=(target,), ftape=ftape)
    obs = {"installs": {}, "crash_tree": None}

    def before_op(sim_, a, op, kind):
        if op.name in ("replace", "rename") and op.path2 == target and kind in ("proceed", "short"):
            try:
                st = seam.real("lstat")(target)
                obs["installs"][a.id] = {"pre_mode": st.st_mode & 0o7777}
            except OSError:
                obs["installs"][a.id] = {"pre_mode": None}

    def after_op(sim_, a, op):
        if op.name in ("replace", "rename") and op.outcome == "ok" and op.path2 == target:
            rec = obs["installs"].setdefault(a.id, {"pre_mode": None})
            try:
                st = seam.real("lstat")(target)
                with seam.real("io.open")(target, "rb") as f:
                    data = f.read()
                rec.update(sha=sha_bytes(data), mode=st.st_mode & 0o7777, done=True)
            except OSError as e:
                rec.update(sha=f"unreadable:{e}", mode=None, done=True)
        if op.outcome in ("kill", "powerloss"):
            obs["crash_tree"] = fsmodel.snapshot(root, with_ino=True)

    sim.before_op = before_op
    sim.after_op = after_op
    wl = writers if writers is not None else writers_of(sc)
    actors = []
    for i, w in enumerate(wl):
        fn = make_call(sc, root, target_rel, w)
        actors.append(sim.add_actor(f"w{i}", fn, faultable=(i == 0 or bool(case.get("fault_all")))))
    sim.run()
    after = fsmodel.snapshot(root, with_ino=True)
    return dict(sim=sim, actors=actors, before=before, after=after, root=root, target=target,
                target_rel=target_rel, obs=obs, sc=sc, writers=wl)


def reference(case: dict, widx: int = 0, after: int | None = None, variant: str = "plain") -> dict:
    """Fault-free (or swallowed-read) execution of ONE writer alone; cached.
    after=j: on the tree the other writer j leaves behind when it runs alone first."""
    sc = case["scenario"]
    key = (digest(sc), digest(case.get("knobs", {})), widx, after, variant)
    hit = _ref_cache.get(key)
    if hit is not None:
        return hit
    wl = writers_of(sc)
    override = None
    if after is not None:
        other = reference(case, after)
        if other["file"] is None or other["status"] != "success":
            out = reference(case, widx, None, variant)
            _ref_cache[key] = out
            return out
        override = _enc(other["file"])
    faults = []
    if variant == "readfail":
        plain = reference(case, widx, after)
        hitop = None
        for op in plain["ops"]:
            if op[2] == "open_r" and op[3] and op[3].endswith(TARGET_NAME):
                hitop = op
                break
        if hitop is None:
            _ref_cache[key] = plain
            return plain
        faults = [{"actor": 0, "at": hitop[1], "kind": "errno", "errno": "EIO"}]
    r = _simulate(case, faults, None, Tape(values=[]), initial_override=override, writers=[wl[widx]], tag="ref")
    a = r["actors"][0]
    status, h = classify(entry_of(sc, wl[widx]), a)
    tnode = r["after"].get(r["target_rel"])
    out = dict(status=status, hash=h, nops=a.op_count, ops=r["sim"].event_log(),
               file=tnode[2] if tnode and tnode[0] == "f" else None, brief=_brief_result(a))
    if len(_ref_cache) > 400:
        _ref_cache.clear()
    _ref_cache[key] = out
    return out


def accepted_hashes(case: dict) -> set:
    """SHA-256 of every 'complete new canonical text' a fault-free execution of this scenario can install."""
    sc = case["scenario"]
    wl = writers_of(sc)
    acc = set()
    for i in range(len(wl)):
        combos = [(None, "plain"), (None, "readfail")]
        for j in range(len(wl)):
            if j != i:
                combos += [(j, "plain"), (j, "readfail")]
        for after, variant in combos:
            r = reference(case, i, after, variant)
            if r["status"] == "success" and r["file"] is not None and not _dry(sc, wl[i]):
                acc.add(sha_bytes(r["file"]))
    return acc


def _dry(sc, w) -> bool:
    args = (w or {}).get("args", sc.get("args")) or {}
    return bool(args.get("corrections_only"))


def _brief_result(a):
    r = a.result
    if isinstance(r, dict):
        if "exit" in r:
            return {"exit": r["exit"], "out": [m for _, m in r["out"]][:3]}
        e = r.get("errors") or r.get("error")
        return {"status": r.get("status"), "errors": str(e)[:300] if e else None,
                "canonical_hash": r.get("canonical_hash")}
    if a.exc is not None:
        return {"exc": f"{type(a.exc).__name__}: {a.exc}"[:300]}
    return {"outcome": a.outcome}


# --------------------------------------------------------------------------- #
# the oracle
# --------------------------------------------------------------------------- #


def judge(case: dict, r: dict, acc: set) -> list[dict]:
    sc, sim, actors = r["sc"], r["sim"], r["actors"]
    before, after, trel = r["before"], r["after"], r["target_rel"]
    tb, ta = before.get(trel), after.get(trel)
    wl = r["writers"]
    multi = len(actors) > 1
    outs = [classify(entry_of(sc, wl[i]), a) for i, a in enumerate(actors)]
    own = {h for st, h in outs if st == "success" and h}
    ok_hashes = acc | own
    viols = []
    fired = "+".join(f"{f['kind'] if f['kind'] != 'errno' else f['errno']}{'*' if f.get('sticky') else ''}@{f['cls']}"
                     for f in sim.fired) or "nofault"
    fired_coarse = "+".join(f"{f['kind']}{'*' if f.get('sticky') else ''}@{f['cls']}" for f in sim.fired) or "nofault"
    outcome_s = "/".join(st for st, _ in outs)

    def V(clause, detail):
        viols.append({"clause": clause, "detail": detail,
                      "signature": f"{clause}|{sc['entry']}|{outcome_s}|{fired_coarse}"})

    def a1_ok(node):
        if node is None:
            return tb is None
        if tb is not None and tb[0] != "f" and node[:2] == tb[:2]:
            return True  # the target was not a regular file (a directory) and still is exactly that
        if node[0] != "f" or node[2] is None:
            return False
        if tb is not None and tb[0] == "f" and node[2] == tb[2]:
            return True
        return sha_bytes(node[2]) in ok_hashes

    # ---- A1: old-or-new, on the real tree
    if not a1_ok(ta):
        V("A1", f"target is neither its previous bytes nor a complete new canonical text: before={_n(tb)} after={_n(ta)} "
                f"accepted={sorted(h[:10] for h in ok_hashes)} fired={fired}")
    # ---- A1 under power loss: every legal post-crash state
    if sim.powerlost and r["obs"]["crash_tree"] is not None:
        n_states = 0
        for label, node in fsmodel.powerloss_states(before, sim, r["root"], trel, r["obs"]["crash_tree"]):
            n_states += 1
            if not a1_ok(node):
                V("A1.powerloss", f"after power loss the target may be {label}: {_n(node)}; before={_n(tb)} fired={fired}")
                break
        r["pl_states"] = n_states
    # ---- A1 if power is lost right after the call(s) returned (same durability model, evaluated on the final state)
    if not sim.powerlost and sim.crash_op is None and not multi:
        for label, node in fsmodel.powerloss_states(before, sim, r["root"], trel, after):
            r["pl_states"] = r.get("pl_states", 0) + 1
            if not a1_ok(node):
                V("A1.powerloss-after-return", f"if power is lost after the call returned, the target may be {label}: {_n(node)}; "
                                               f"before={_n(tb)} fired={fired}")
                break
    # ---- per-actor clauses
    for i, a in enumerate(actors):
        st, h = outs[i]
        dry = _dry(sc, wl[i])
        created = [op.path for op in a.ops if op.name == "open_c" and op.outcome == "ok" and op.path != r["target"]
                   and (op.detail or 0) & os.O_CREAT] if True else []
        gone = {op.path for op in a.ops if op.cls == "unlink" and op.outcome == "ok"}
        gone |= {op.path for op in a.ops if op.name in ("replace", "rename") and op.outcome == "ok"}
        leftover = [p for p in created if p not in gone]
        installed = [op for op in a.ops if op.name in ("replace", "rename") and op.outcome == "ok" and op.path2 == r["target"]]
        if st in ("error", "raised"):
            excused = bool(sim.unlink_faulted) or any(s["errno"] in seam.CLASS_ERRNOS["unlink"] for s in sim.sticky)
            if installed:
                V("A2.target", f"writer {i} returned an error but had installed new content: {_brief_result(a)}")
            if not multi and (ta[:3] if ta else None) != (tb[:3] if tb else None):
                V("A2.target", f"call returned an error but the target changed: before={_n(tb)} after={_n(ta)} "
                               f"result={_brief_result(a)} fired={fired}")
            if leftover and not excused:
                V("A2.temp", f"writer {i} returned an error and left {[_rel(p, r['root']) for p in leftover]} behind "
                             f"(no unlink of it was made to fail); result={_brief_result(a)} fired={fired}")
            if not multi and not excused:
                bf = {k for k, v in before.items() if v[0] != "d"}
                af = {k for k, v in after.items() if v[0] != "d"}
                extra = sorted(af - bf)
                if extra and not leftover:
                    V("A2.temp", f"call returned an error and new entries exist: {extra}; fired={fired}")
        if st == "success" and not dry:
            rec = r["obs"]["installs"].get(a.id)
            if rec is None or not rec.get("done"):
                # no replace onto the target: acceptable only if the file already holds exactly the reported text
                if ta is None or ta[0] != "f" or sha_bytes(ta[2]) != h:
                    if h is not None:
                        V("A3.hash", f"writer {i} reported success/{h[:10]} but never installed it; target={_n(ta)}")
            else:
                if h is not None and rec["sha"] != h:
                    V("A3.hash", f"writer {i}: bytes installed hash to {str(rec['sha'])[:10]}, envelope says {h[:10]}; fired={fired}")
            if entry_of(sc, wl[i]).startswith("cli") and h is None and entry_of(sc, wl[i]) == "cli_write":
                V("A3.hash", "CLI write succeeded without printing canonical_hash")
        if dry:
            mut = [op.brief(r["root"]) for op in a.ops if op.cls in seam.MUTATING_CLASSES]
            if mut:
                V("A5", f"corrections_only call issued mutating operations: {mut[:4]}")
    # ---- A3.mode: an existing file keeps its permission bits (observed after the calls returned)
    if any(st == "success" and not _dry(sc, wl[i]) for i, (st, _) in enumerate(outs)):
        # "permission bits" are the nine rwx bits (POSIX: file permission bits); set-user-ID, set-group-ID and sticky are
        # file MODE bits but not permission bits, and the code drops them on purpose (st_mode & 0o777) as the kernel itself does
        # when a set-id file is written -- comparing them was a false alarm of this oracle (found with fmode=0o2664/0o4755)
        if tb is not None and tb[0] == "f" and ta is not None and ta[0] == "f" and (ta[1] & 0o777) != (tb[1] & 0o777):
            V("A3.mode", f"permission bits of the existing file changed {oct(tb[1])} -> {oct(ta[1])}; fired={fired}")
    # ---- A4: frame
    for rel, node in before.items():
        if rel == trel:
            continue
        an = after.get(rel)
        if an is None or an[:3] != node[:3]:
            V("A4", f"unrelated entry {rel!r} changed: {_n(node)} -> {_n(an)}")
            break
    return viols


def _n(node):
    if node is None:
        return "absent"
    return fsmodel._desc(node)


def _rel(p, root):
    return p[len(root) + 1:] if p.startswith(root + "/") else p


def run_case(case: dict, stats: Stats | None = None) -> dict:
    """Deterministic function of the case.  Returns dict(violations, log, digest, fired, tape)."""
    sc = case["scenario"]
    tape = Tape(**_tape_args(case.get("tape")))
    ftape = Tape(**_tape_args(case.get("ftape"))) if case.get("fault_cfg") else None
    acc = accepted_hashes(case)
    r = _simulate(case, case.get("faults") or [], case.get("fault_cfg"), tape, ftape)
    sim = r["sim"]
    if sim.bypass:
        raise seam.HarnessError(f"seam bypass: {sim.bypass[:3]}")
    crash_kinds = [f for f in sim.fired if f["kind"] in seam.CRASH_KINDS]
    if crash_kinds and len(sim.fired) > len(crash_kinds):
        # earlier non-crash faults may legitimately have changed what 'new' means: continuation reference
        cont = dict(case)
        # only the faults that fired BEFORE the crash: what fired afterwards (another writer, or cleanup code unwinding from an
        # interrupt) belongs to an execution that the continuation -- where the crash does not happen -- never reaches
        first_crash = next(i for i, f in enumerate(sim.fired) if f["kind"] in seam.CRASH_KINDS)
        cont["faults"] = [_plan(f) for f in sim.fired[:first_crash] if f["kind"] not in seam.CRASH_KINDS]
        cont["fault_cfg"] = None
        cont["tape"] = {"values": list(tape.values)}
        r2 = _simulate(cont, cont["faults"], None, Tape(values=list(tape.values)), tag="cont")
        for i, a in enumerate(r2["actors"]):
            st, h = classify(entry_of(sc, r2["writers"][i]), a)
            if st == "success" and h and not _dry(sc, r2["writers"][i]):
                acc = acc | {h}
    # kill-model fidelity: what unwinding does must not touch the file system
    if len(r["actors"]) == 1 and sim.crash_op is not None and sim.crash_op.outcome == "kill":
        d = fsmodel.diff(r["obs"]["crash_tree"], r["after"])
        if d:
            raise seam.HarnessError(f"kill model leaked effects during unwinding: {d}")
    viols = judge(case, r, acc)
    log = sim.event_log()
    if case.get("followup") and sim.crash_op is None and not sim.powerlost and len(r["actors"]) == 1:
        fv, flog = _followup(case, r)
        viols = viols + fv
        log = log + flog
        if stats is not None:
            stats.inc("followup_calls")
    if stats is not None:
        _account(stats, case, r, viols)
    return {"violations": viols, "log": log, "digest": digest(log), "fired": [_plan(f) for f in sim.fired],
            "tape": list(tape.values), "nops": [a.op_count for a in r["actors"]],
            "outcomes": [a.outcome for a in r["actors"]], "results": [_brief_result(a) for a in r["actors"]],
            "ops0": [(op.idx, op.name) for op in r["actors"][0].ops]}


FOLLOWUP_TEXT = '===DOC===\nMETA:\n  TYPE::TEST\n  VERSION::"1.0"\nMARK::followup\nK0::after_the_failure\n===END===\n'


def _followup(case: dict, r: dict):
    """The SAME process serves one more, healthy, write to the same target after the (faulted) call returned: whatever the
    failed call left behind IN THE PROCESS (a remembered refusal, a registry of names, a cached descriptor, a lock object) must
    not make a later call install wrong bytes, change permission bits, leave files or touch anything else."""
    sc, root, trel = r["sc"], r["root"], r["target_rel"]
    target = os.path.join(root, trel)
    pre = fsmodel.snapshot(root)
    node = pre.get(trel)
    if node is not None and node[0] != "f":
        return [], []
    entry = "tool" if entry_of(sc, None) == "tool" else "atomic"
    sim = seam.Simulation(root, Tape(values=[]), seam.Knobs())
    if entry == "tool":
        from octave_mcp.mcp.write import WriteTool

        tool = WriteTool()
        a = sim.add_actor("followup", lambda: drive(tool.execute(target_path=target, content=FOLLOWUP_TEXT)))
    else:
        from octave_mcp.core.file_ops import atomic_write_octave

        text = docs_canonical_or_raw(FOLLOWUP_TEXT)
        a = sim.add_actor("followup", lambda: atomic_write_octave(target, text, None))
    sim.run()
    if sim.bypass:
        raise seam.HarnessError(f"seam bypass: {sim.bypass[:3]}")
    post = fsmodel.snapshot(root)
    st, h = classify(entry, a)
    viols = []

    def V(clause, detail):
        viols.append({"clause": clause, "detail": "follow-up call in the same process: " + detail,
                      "signature": f"{clause}|followup|{entry}|{st}"})

    tn = post.get(trel)
    if st == "success":
        if tn is None or tn[0] != "f" or (h and sha_bytes(tn[2]) != h):
            V("A3.hash", f"reported success/{str(h)[:10]} but the target is {_n(tn)}")
        if node is not None and tn is not None and tn[0] == "f" and (tn[1] & 0o777) != (node[1] & 0o777):
            V("A3.mode", f"permission bits of the existing file changed {oct(node[1])} -> {oct(tn[1])} (first call: {_brief_result(r['actors'][0])}, "
                         f"faults {[(f['errno'] or f['kind'], f['cls']) for f in r['sim'].fired]})")
    else:
        if (tn[:3] if tn else None) != (node[:3] if node else None):
            V("A2.target", f"returned {_brief_result(a)} and the target changed: {_n(node)} -> {_n(tn)}")
    for rel in sorted(set(pre) | set(post)):
        if rel == trel:
            continue
        b_, a_ = pre.get(rel), post.get(rel)
        if (b_[:3] if b_ else None) != (a_[:3] if a_ else None):
            if b_ is None and a_ is not None and a_[0] == "d" and trel.startswith(rel + "/"):
                continue  # a missing parent directory created by the successful write
            V("A4" if b_ is not None else "A2.temp", f"entry {rel!r}: {_n(b_)} -> {_n(a_)}")
            break
    return viols, [["followup", entry, st]] + sim.event_log()


def _plan(f):
    p = {"actor": f["actor"], "at": f["at"], "kind": f["kind"]}
    if f.get("errno"):
        p["errno"] = f["errno"]
    if f.get("sticky"):
        p["sticky"] = True
    return p


def _tape_args(t):
    if not t:
        return {"values": []}
    if "values" in t:
        return {"values": t["values"]}
    return {"seed": t["seed"]}


def _account(stats: Stats, case, r, viols):
    sim, sc = r["sim"], r["sc"]
    stats.inc("runs")
    stats.inc("yield_points", sim.steps)
    stats.inc("actors", len(r["actors"]))
    if len(r["actors"]) > 1:
        stats.inc("two_writer_runs")
    for k, v in sim.fault_counts.items():
        stats.group("fault_counts", k, v)
    for k, v in sim.probes.items():
        stats.group("probes", k, v)
    outs = "/".join(a.outcome for a in r["actors"])
    stats.group("outcomes", outs)
    stats.inc("powerloss_states", r.get("pl_states", 0))
    wl = r["writers"]
    for i, a in enumerate(r["actors"]):
        st, _ = classify(entry_of(sc, wl[i]), a)
        stats.group("call_results", st)
        res = a.result
        if isinstance(res, dict) and res.get("errors"):
            for e in res["errors"]:
                if isinstance(e, dict):
                    stats.group("error_codes", e.get("code", "?"))
    fired = tuple((f["kind"] if f["kind"] != "errno" else f["errno"], f["cls"], bool(f.get("sticky"))) for f in sim.fired)
    klass = (sc["entry"], sc["mode"], sc["initial"], sc.get("base_hash"), sc.get("parent_missing", 0))
    if fired:
        stats.distinct("fault_tuples", repr((klass, fired, outs)))
        stats.inc("runs_with_fault")
    if len(fired) >= 2:
        stats.inc("runs_with_2plus_faults")
    stats.distinct("scenario_classes", repr(klass))
    stats.distinct("traces", digest([(op.actor, op.name, op.outcome) for op in sim.events]))
    if sim.step_capped:
        stats.inc("step_capped")
    # rare-condition probes
    if any(op.name == "open_c" and op.outcome == "!EEXIST" for op in sim.events):
        stats.group("probes", "mkstemp_name_collision")
    if any(op.cls == "unlink" and op.outcome == "ok" for op in sim.events):
        stats.group("probes", "cleanup_unlink_ran")
    if any(op.name == "mkdir" and op.outcome == "ok" for op in sim.events):
        stats.group("probes", "parent_dir_created")
    if viols:
        stats.inc("violating_runs")
    if len(fired) >= 2 and len(stats.samples.get("faulted_run", [])) < 2:
        stats.sample("faulted_run", {"scenario": {k: sc.get(k) for k in ("entry", "mode", "initial", "base_hash", "parent_missing", "fmode")},
                                     "faults_fired": [f"{f['kind'] if f['kind'] != 'errno' else f['errno']}{'*' if f.get('sticky') else ''}"
                                                      f"@op{f['at']}:{f['op']}" for f in sim.fired],
                                     "actor_outcomes": outs, "tail_of_event_log": sim.event_log()[-6:],
                                     "target_after": _n(r["after"].get(r["target_rel"]))}, cap=2)


# --------------------------------------------------------------------------- #
# work units
# --------------------------------------------------------------------------- #

CRASHES = ["kill", "powerloss", "interrupt"]


def fidelity_check(case: dict, stats: Stats):
    """The fault-free scenario once THROUGH the seam (SimFile, interposed os.*) and once WITHOUT it (CPython's own file
    objects, plain os): same result class and byte-identical tree, or the simulator misrepresents the code (harness error)."""
    r1 = _simulate(case, [], None, Tape(values=[]), tag="fid1")
    sc = case["scenario"]
    root = fsmodel.fresh_root("fid2")
    spec, trel = layout(sc)
    fsmodel.build_tree(root, spec)
    fn = make_call(sc, root, trel, None)

    class _A:
        outcome = "returned"
        result = None
        exc = None

    a2 = _A()
    try:
        a2.result = fn()  # no actor is current: every interposed function passes straight through
    except SystemExit as e:
        a2.result = e
    except Exception as e:  # noqa: BLE001
        a2.outcome, a2.exc = "raised", e
    t1 = {k: v[:3] for k, v in r1["after"].items()}
    t2 = {k: v[:3] for k, v in fsmodel.snapshot(root).items()}
    # temp names differ (deterministic vs random) only if a temp file is LEFT, which a fault-free run must not do
    d = fsmodel.diff(t1, t2)
    c1 = classify(sc["entry"], r1["actors"][0])
    c2 = classify(sc["entry"], a2)
    if d or c1 != c2:
        raise seam.HarnessError(f"seam fidelity: scenario {case.get('idx')} behaves differently through the simulator: "
                                f"results {c1} vs {c2}; tree diff {d[:4]}")
    stats.inc("fidelity_checks_passed")


def make_case(seed: int, idx: int, tier: str, two_writers: bool = False) -> dict:
    t = Tape(seed)
    sc = gen_scenario(t, idx, tier)
    knobs = gen_knobs(t)
    ns_ = sc.get("new_style") or ""
    size_ = len(_dec(sc.get("initial_data")) or b"") + len((sc.get("new_text") or "").encode())
    if sc["initial"] in ("big", "corpus", "huge", "over64k") or ns_ in ("big", "corpus", "huge", "over64k", "mbhuge") or size_ > 30_000:
        # chunk sizes scale with the content so that a run stays within the step cap; odd (non power-of-two) sizes for multi-byte
        # content so that slice boundaries fall inside characters
        floor = 16384 if ("huge" in (sc["initial"], ns_) or ns_ == "mbhuge" or size_ > 60_000) else 4096
        if ns_ == "mbhuge" or ns_.endswith(":mb"):
            floor += 1
        knobs["wchunk"] = max(knobs["wchunk"], floor)
        knobs["rchunk"] = max(knobs["rchunk"], floor)
    if two_writers and sc["entry"] in ("tool", "atomic"):
        t2 = Tape(seed ^ 0x5EC0)
        second = {"entry": t2.pick(["tool", "atomic"], "w2.entry"), "mode": "content",
                  "new_text": docs.gen_doc(t2, f"W2x{idx:x}", "canonical"),
                  "args": {}, "bh": t2.pick([None, sc.get("bh")], "w2.bh")}
        sc["second"] = second
    return {"prop": PROP, "seed": seed, "idx": idx, "scenario": sc, "knobs": knobs, "faults": [], "fault_cfg": None,
            "tape": {"values": []}}


def units(tier: str, verif_seed: int) -> list:
    out = []
    if tier == "quick":
        n_sweep, n_pair, n_rand_units, per = len(MATRIX), 14, 80, 160  # every named scenario is swept, always
    else:
        n_sweep, n_pair, n_rand_units, per = 1500, 400, 3200, 500
    parts = 4
    # quick: a spread over the named matrix (new file, overwrite+base_hash, missing parent, read-only, frontmatter, changes,
    # normalize, atomic_write_octave, each CLI command) rather than its first entries
    want = [("tool", "content", "absent"), ("tool", "content", "canonical"), ("tool", "content", "frontmatter"), ("tool", "changes", "canonical"),
            ("tool", "normalize", "lenient"), ("tool", "changes", "crlf"), ("atomic", "content", "absent"), ("atomic", "content", "canonical"),
            ("cli_write", "content", "absent"), ("cli_write", "content", "canonical"), ("cli_write", "changes", "canonical"),
            ("cli_normalize", "content", "canonical"), ("cli_seal", "content", "canonical"), ("cli_hydrate", "content", "absent")]
    spread = []
    for key in want:
        cands = [i for i, m_ in enumerate(MATRIX) if (m_["entry"], m_["mode"], m_["initial"]) == key]
        spread += cands[:1]
    pair_idx = sorted(set(spread)) if tier == "quick" else list(range(n_pair))
    for i in pair_idx:
        for part in range(parts):
            out.append({"kind": "sweep", "idx": i, "seed": derive_seed(verif_seed, PROP, "sweep", i), "tier": tier,
                        "pairs": True, "part": part, "parts": parts})
    for i in range(n_sweep):
        out.append({"kind": "sweep", "idx": i, "seed": derive_seed(verif_seed, PROP, "sweep", i), "tier": tier,
                    "pairs": False})
    for i in range(n_rand_units):
        out.append({"kind": "random", "start": i * per, "count": per, "vseed": verif_seed, "tier": tier})
    n_x = 16 if tier == "quick" else 80
    for i in range(n_x):
        out.insert(i * 3, {"kind": "xval", "start": i * 4, "count": 4 if tier != "quick" else 1, "vseed": verif_seed})
    if tier != "quick":
        # the thorough plan is longer than its wall-clock cap on a busy machine: interleave the kinds (proportionally) so that
        # whatever part completes contains pair sweeps, single sweeps, random runs and cross-validation alike
        groups: dict = {}
        for u in out:
            groups.setdefault((u["kind"], bool(u.get("pairs"))), []).append(u)
        keyed = []
        for g in groups.values():
            for i, u in enumerate(g):
                keyed.append(((i + 0.5) / len(g), u))
        keyed.sort(key=lambda x: x[0])
        out = [u for _, u in keyed]
    return out


def run_unit(unit: dict):
    stats = Stats()
    viols: list = []
    if unit["kind"] == "xval":
        crossvalidate_unit(unit, stats)
    elif unit["kind"] == "det":
        _det_unit(unit, stats)
    elif unit["kind"] == "sweep":
        _sweep(unit, stats, viols)
    else:
        for j in range(unit["start"], unit["start"] + unit["count"]):
            seed = derive_seed(unit["vseed"], PROP, "random", j)
            case = random_case(seed, j, unit["tier"])
            _run_and_collect(case, stats, viols)
    return stats, viols


def _run_and_collect(case, stats, viols, cap=40):
    res = run_case(case, stats)
    for v in res["violations"]:
        if len(viols) < cap:
            c = dict(case)
            # make the case self-contained and explicit: fired faults become the plan
            if case.get("fault_cfg"):
                c["faults"] = res["fired"]
                c["fault_cfg"] = None
                c.pop("ftape", None)
            c["tape"] = {"values": res["tape"]}
            viols.append({"clause": v["clause"], "signature": v["signature"], "detail": v["detail"], "case": c})
    return res


def _sweep(unit, stats, viols):
    """Systematic single-fault sweep (and recovery-window pair sweep) over one scenario."""
    case0 = make_case(unit["seed"], unit["idx"], unit["tier"])
    base = _run_and_collect(case0, stats, viols)  # fault-free run, judged like any other
    if not unit.get("pairs"):
        stats.inc("sweep_scenarios")
        fidelity_check(case0, stats)
    else:
        stats.inc("pair_sweep_parts")
    ops = base["ops0"]
    stats.sample("sweep_scenario", {"idx": unit["idx"], "entry": case0["scenario"]["entry"], "mode": case0["scenario"]["mode"],
                                    "initial": case0["scenario"]["initial"], "base_hash": case0["scenario"].get("base_hash"),
                                    "knobs": case0["knobs"], "ops": [n for _, n in ops]}, cap=2)
    # long runs of chunk writes: keep the first 4, the last 2 and a seeded sample of the middle
    widx = [k for k, n in ops if n == "write"]
    skip = set()
    if len(widx) > 14:
        mid = widx[4:-2]
        tsel = Tape(unit["seed"] ^ 0x77)
        keep = {mid[tsel.choose(len(mid), "wsel")] for _ in range(8)}
        skip = set(mid) - keep
        stats.inc("sweep_write_points_sampled_out", len(skip))
    part, parts = unit.get("part", 0), unit.get("parts", 1)
    # a unit is a few seconds to a few minutes of work; scenarios with 100 KB+ documents would take hours in the pair sweep.
    # Budgeted units visit the operations in a spread order (not first-to-last) and stop when the budget is used up; how many
    # units that happened to is part of the evidence (sweep_units_truncated_by_budget).  Verdicts per run are unaffected.
    budget = float(os.environ.get("VERIF_SWEEP_BUDGET", "240" if unit.get("pairs") else "420"))
    t_start = time.time()
    order = list(ops)
    if len(_dec(case0["scenario"].get("initial_data")) or b"") + len(case0["scenario"].get("new_text") or "") > 50_000:
        order.sort(key=lambda kn: ((kn[0] * 7919) % 9973, kn[0]))
    truncated = False
    for k, name in order:
        if k in skip:
            continue
        if unit.get("pairs") and k % parts != part:
            continue
        if time.time() - t_start > budget:
            truncated = True
            break
        plans = [{"kind": c} for c in CRASHES]
        for en in seam.admissible(name):
            plans.append({"kind": "errno", "errno": en})
            plans.append({"kind": "errno", "errno": en, "sticky": True})
        if name == "write":
            plans.append({"kind": "short"})
        for p in plans:
            f1 = {"actor": 0, "at": k, **p}
            case = dict(case0)
            case["faults"] = [f1]
            if p["kind"] == "errno" and not p.get("sticky") and not unit.get("pairs"):
                case["followup"] = True  # the process lives on and serves one more write
            res = _run_and_collect(case, stats, viols)
            stats.inc("sweep_single_runs" if not unit.get("pairs") else "sweep_pair_first_runs")
            if not unit.get("pairs") or p["kind"] in ("kill", "powerloss") or p.get("sticky"):
                continue
            # pair sweep: second fault anywhere in what the first fault left to run
            tail = [(i, n) for i, n in res["ops0"] if i > k]
            for k2, name2 in tail:
                if time.time() - t_start > budget:
                    truncated = True
                    break
                plans2 = [{"kind": "kill"}] + [{"kind": "errno", "errno": en} for en in seam.admissible(name2)]
                for p2 in plans2:
                    case2 = dict(case0)
                    case2["faults"] = [f1, {"actor": 0, "at": k2, **p2}]
                    _run_and_collect(case2, stats, viols)
                    stats.inc("sweep_pair_runs")
    stats.inc("sweep_units")
    if truncated:
        stats.inc("sweep_units_truncated_by_budget")


ALL_ERRNOS = sorted({e for v in seam.CLASS_ERRNOS.values() for e in v})


def random_case(seed: int, idx: int, tier: str) -> dict:
    """Swarm-style random multi-fault run (up to 3 faults, later ones biased into the recovery window)."""
    t = Tape(seed ^ 0xA5A5)
    two = t.flag(330, "two")
    case = make_case(seed, len(MATRIX) + idx, tier, two_writers=two)
    kinds = [k for k in ALL_ERRNOS + CRASHES + ["short"] if t.flag(550, "kind.on")] or ["EIO", "kill"]
    case["fault_cfg"] = {
        "rate": t.pick([40, 80, 150, 15], "f.rate"),
        "boost": t.pick([400, 250, 700], "f.boost"),
        "window": t.pick([8, 3, 20], "f.win"),
        "max": t.pick([2, 3, 1, 2], "f.max"),
        "kinds": kinds,
        "sticky_permille": t.pick([0, 150, 400], "f.sticky"),
    }
    case["fault_all"] = bool(t.choose(2, "f.all"))
    case["tape"] = {"seed": seed ^ 0x1111}
    case["ftape"] = {"seed": seed ^ 0x2222}
    return case


# --------------------------------------------------------------------------- #
# minimisation
# --------------------------------------------------------------------------- #


def minimise(case: dict, clause: str, sig: str, budget: int = 300) -> dict:
    """Shrink faults, schedule and scenario while the same clause keeps failing."""
    runs = 0

    def fails(c):
        nonlocal runs
        runs += 1
        try:
            res = run_case(c)
        except Exception:
            return False
        return any(v["clause"] == clause for v in res["violations"])

    cur = copy.deepcopy(case)
    if not fails(cur):
        return case
    changed = True
    while changed and runs < budget:
        changed = False
        # drop faults
        for i in range(len(cur.get("faults", []))):
            c = copy.deepcopy(cur)
            del c["faults"][i]
            if fails(c):
                cur, changed = c, True
                break
        if changed:
            continue
        # non-sticky instead of sticky
        for i, f in enumerate(cur.get("faults", [])):
            if f.get("sticky"):
                c = copy.deepcopy(cur)
                c["faults"][i].pop("sticky")
                if fails(c):
                    cur, changed = c, True
                    break
        if changed:
            continue
        # drop second writer
        if cur["scenario"].get("second"):
            c = copy.deepcopy(cur)
            c["scenario"].pop("second")
            if fails(c):
                cur, changed = c, True
                continue
        # zero the schedule
        vals = cur.get("tape", {}).get("values") or []
        if any(vals):
            c = copy.deepcopy(cur)
            c["tape"] = {"values": []}
            if fails(c):
                cur, changed = c, True
                continue
            for i in range(len(vals)):
                if vals[i] and runs < budget:
                    c = copy.deepcopy(cur)
                    c["tape"]["values"][i] = 0
                    if fails(c):
                        cur, changed = c, True
            while cur["tape"]["values"] and cur["tape"]["values"][-1] == 0:
                cur["tape"]["values"].pop()
        # simpler knobs
        for kname, simple in (("wchunk", 1 << 16), ("userbuf", 8192), ("rchunk", 1 << 16), ("tmp_shared", False)):
            if cur["knobs"].get(kname) != simple:
                c = copy.deepcopy(cur)
                c["knobs"][kname] = simple
                if fails(c):
                    cur, changed = c, True
        # drop siblings, args
        if cur["scenario"].get("args"):
            for a in list(cur["scenario"]["args"]):
                c = copy.deepcopy(cur)
                del c["scenario"]["args"][a]
                if fails(c):
                    cur, changed = c, True
    # canonical form of the result: refresh bookkeeping fields
    cur["minimised_from"] = digest(case)
    cur["minimise_runs"] = runs
    return cur


# --------------------------------------------------------------------------- #
# entry
# --------------------------------------------------------------------------- #

ASSUMPTIONS = [
    "process death is modelled at file-operation boundaries: completed system calls stay, user-space buffers and pending cleanup vanish (fidelity self-checked on every kill run; cross-validated against real SIGKILLed child processes in the thorough tier)",
    "power loss is a MODEL: ordered metadata, data durable only up to the last successful fsync (pessimistic POSIX / ext4-style); no real disk or kernel crash is involved",
    "the kernel executes every operation that is allowed to proceed (real tmpfs), so rename/O_EXCL/mode semantics are the real ones",
    "'new canonical text' = bytes whose SHA-256 a fault-free (or swallowed-read) reference execution of the same scenario installs, or the run's own returned canonical_hash",
    "MCP dispatcher/transport are not involved: WriteTool.execute, atomic_write_octave and the click commands are called directly",
]

COMPONENTS = {
    "real": ["octave_mcp.mcp.write.WriteTool.execute", "octave_mcp.core.file_ops.atomic_write_octave",
             "octave_mcp.cli.main (write, normalize -o, seal -o) via click in-process", "pathlib/tempfile/posixpath (stdlib)",
             "kernel file system (tmpfs)"],
    "stub": ["file objects for sandbox paths (SimFile: simulator-owned user-space buffer over real os.read/os.write)",
             "tempfile name sequence (deterministic)", "MCP server dispatch and transports (not constructed)",
             "power-loss durability (shadow model)"],
}


def _dedupe(items):
    seen, out = set(), []
    for x in items:
        k = digest(x)
        if k not in seen:
            seen.add(k)
            out.append(x)
    return out


def main(tier: str, seed: int, args) -> int:
    import time

    from . import runner

    seam.install()
    seam.install_audit()
    docs.corpus()
    t0 = time.time()
    us = units(tier, seed)
    if args.units:
        us = us[: args.units]
    cap = 600 if tier == "quick" else 3300
    stats, viols, errors, done = runner.run_units("sim.c16", us, wall_cap=cap)
    wall = time.time() - t0
    c = stats.c
    runs = c.get("runs", 0)
    coverage = {
        "evaluations": runs,
        "distinct_nontrivial": len(stats.sets.get("fault_tuples", ())),
        "rule": "one evaluation = one simulated execution of the real write path (scenario x fault plan x schedule) judged by "
                "oracle A1-A5; non-trivial = at least one fault/crash actually fired; distinct = distinct (scenario class, "
                "fired fault kinds with op class and stickiness, actor outcomes) tuples",
        "samples": _dedupe(stats.samples.get("sweep_scenario", []))[:2] + stats.samples.get("faulted_run", [])[:2],
        "units_done": done, "units_planned": len(us),
        "runs_per_hour": int(runs / wall * 3600) if wall > 0 else 0,
        "yield_points_executed": c.get("yield_points", 0),
        "simulated_time": "no timers or deadlines exist in the write path; reach is measured in yield points (file operations scheduled), not seconds",
        "traces_validated_against_impl": c.get("xval_agree", 0),
        "kill_points_cross_validated_against_real_SIGKILL": {"children": c.get("xval_children", 0), "agree": c.get("xval_agree", 0),
                                                              "by_op": dict(stats.groups.get("xval_ops", {}))},
        "seam_fidelity_checks_passed": c.get("fidelity_checks_passed", 0),
        "sweep_scenarios": c.get("sweep_scenarios", 0),
        "sweep_units": c.get("sweep_units", 0),
        "sweep_units_truncated_by_budget": c.get("sweep_units_truncated_by_budget", 0),
        "sweep_single_fault_runs": c.get("sweep_single_runs", 0),
        "followup_calls_by_the_same_process_after_a_failed_call": c.get("followup_calls", 0),
        "sweep_pair_runs": c.get("sweep_pair_runs", 0),
        "random_multi_fault_runs": runs - c.get("sweep_single_runs", 0) - c.get("sweep_pair_runs", 0) - c.get("sweep_scenarios", 0),
        "runs_with_fault": c.get("runs_with_fault", 0),
        "runs_with_2plus_faults": c.get("runs_with_2plus_faults", 0),
        "two_writer_runs": c.get("two_writer_runs", 0),
        "powerloss_states_evaluated": c.get("powerloss_states", 0),
        "fault_counts_fired": dict(sorted(stats.groups.get("fault_counts", {}).items())),
        "probes": dict(stats.groups.get("probes", {})),
        "actor_outcomes": dict(stats.groups.get("outcomes", {})),
        "call_results": dict(stats.groups.get("call_results", {})),
        "error_codes": dict(stats.groups.get("error_codes", {})),
        "distinct_scenario_classes": len(stats.sets.get("scenario_classes", ())),
        "distinct_op_traces": len(stats.sets.get("traces", ())),
        "step_capped_runs": c.get("step_capped", 0),
        "exhaustive": False,
        "components": COMPONENTS,
    }
    return runner.finish(PROP, sys.modules[__name__], tier, seed, stats, viols, errors, wall, coverage, ASSUMPTIONS)


import sys  # noqa: E402


def determinism_digests(n: int, seed: int) -> list:
    """Event-log digests of n seeded random cases + n//4 sweep-style planned cases (for the determinism self-test)."""
    from . import runner

    seam.install()
    seam.install_audit()
    docs.corpus()
    us = [{"kind": "det", "lo": i, "hi": min(i + 10, n), "vseed": seed} for i in range(0, n, 10)]
    stats, viols, errors, done = runner.run_units("sim.c16", us, progress=False)
    if errors:
        raise RuntimeError(errors[0])
    got = dict(stats.samples.get("det", []))
    return [got.get(str(i)) for i in range(n)]


def _det_unit(unit, stats):
    for j in range(unit["lo"], unit["hi"]):
        case = random_case(derive_seed(unit["vseed"], PROP, "random", j), j, "quick")
        res = run_case(case)
        stats.sample("det", (str(j), res["digest"] + ":" + ",".join(v["clause"] for v in res["violations"])), cap=10 ** 9)


# --------------------------------------------------------------------------- #
# cross-validation of the in-process kill model against real SIGKILLed child processes
# --------------------------------------------------------------------------- #


def crossvalidate_unit(unit: dict, stats: Stats):
    """For sampled (scenario, op index): predict the directory after a kill in-process, then run the same scenario in a
    real child process that SIGKILLs itself before the same operation, and compare the directories byte for byte."""
    import subprocess
    import json as _json

    from .runner import VERIF

    for j in range(unit["start"], unit["start"] + unit["count"]):
        seed = derive_seed(unit["vseed"], PROP, "xval", j)
        t = Tape(seed)
        case = make_case(seed, t.choose(len(MATRIX) + 200, "xv.idx"), "quick")
        case["knobs"]["wchunk"] = t.pick([16, 64, 4096], "xv.wc")
        base = run_case(case)
        ops = base["ops0"]
        if not ops:
            continue
        k = ops[t.choose(len(ops), "xv.k")][0]
        case_k = dict(case)
        case_k["faults"] = [{"actor": 0, "at": k, "kind": "kill"}]
        r = _simulate(case_k, case_k["faults"], None, Tape(values=[]), tag="xvp")
        predicted = {kk: v[:3] for kk, v in r["after"].items()}
        # the real thing
        root = fsmodel.fresh_root("xvr")
        child_case = dict(case)
        child_case["faults"] = [{"actor": 0, "at": k, "kind": "realkill"}]
        env = dict(os.environ)
        env.pop("COVERAGE_PROCESS_START", None)
        pp = [VERIF]
        if os.environ.get("VERIF_REPO_SRC"):
            pp.insert(0, os.environ["VERIF_REPO_SRC"])
        env["PYTHONPATH"] = os.pathsep.join(pp)
        p = subprocess.run([sys.executable, "-m", "sim.c16_child"], input=_json.dumps({"case": child_case, "root": root}),
                           capture_output=True, text=True, env=env, cwd=VERIF, timeout=120)
        stats.inc("xval_children")
        if p.returncode != -9:
            raise seam.HarnessError(f"cross-validation child did not die by SIGKILL (rc={p.returncode}): {p.stdout[-300:]} {p.stderr[-600:]}")
        actual = {kk: v[:3] for kk, v in fsmodel.snapshot(root).items()}
        d = fsmodel.diff(predicted, actual)
        if d:
            raise seam.HarnessError(f"kill model disagrees with a real SIGKILL at op {k} of scenario {case['idx']}: {d}")
        stats.inc("xval_agree")
        stats.group("xval_ops", dict(ops).get(k, "?"))
