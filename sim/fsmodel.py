"""Sandbox trees: building, snapshotting, comparing; and the power-loss model.

All functions here use the *real* file system functions (they are called from
the scheduler / oracles, never from code under test).
"""

from __future__ import annotations

import hashlib
import os
import shutil
import stat as _stat

from . import seam


def _r(name):
    return seam._real.get(name) or getattr(os, name)


_BASE = None


def base_dir() -> str:
    """Per-process scratch base, on tmpfs when available; never under /tmp of a registered command's inputs."""
    global _BASE
    if _BASE is None or not os.path.isdir(_BASE) or _BASE_PID != os.getpid():
        _make_base()
    return _BASE


_BASE_PID = None


def _make_base():
    global _BASE, _BASE_PID
    top = "/dev/shm" if os.path.isdir("/dev/shm") and os.access("/dev/shm", os.W_OK) else None
    if top is None:
        import tempfile
        top = tempfile.gettempdir()
    top = os.path.realpath(top)
    run_base = os.environ.get("VERIF_SCRATCH_BASE")
    if run_base and os.path.isdir(run_base):
        # one directory per check invocation (removed by the invoking process at the end); workers get a sub-directory
        top = os.path.realpath(run_base)
    d = os.path.join(top, f"ovsim-{os.getpid()}")
    with seam.passthrough():
        if os.path.isdir(d):
            shutil.rmtree(d, ignore_errors=True)
        os.makedirs(d, exist_ok=True)
    _BASE = d
    _BASE_PID = os.getpid()


def fresh_root(tag: str = "r") -> str:
    d = os.path.join(base_dir(), tag)
    with seam.passthrough():
        if os.path.lexists(d):
            _rmtree(d)
        os.makedirs(d)
    return d


def _rmtree(d):
    def onerr(func, path, exc):
        try:
            os.chmod(os.path.dirname(path), 0o700)
            os.chmod(path, 0o700)
            func(path)
        except OSError:
            pass
    shutil.rmtree(d, onerror=onerr)


def cleanup_base():
    global _BASE
    if _BASE and _BASE_PID == os.getpid():
        with seam.passthrough():
            shutil.rmtree(_BASE, ignore_errors=True)
    _BASE = None


def build_tree(root: str, spec: list):
    """spec: list of entries, applied in order:
    ("d", rel, mode) | ("f", rel, bytes, mode) | ("l", rel, target_text) | ("h", rel, existing_rel) hard link
    """
    with seam.passthrough():
        for e in spec:
            p = os.path.join(root, e[1]) if e[1] else root
            if e[0] == "d":
                os.makedirs(p, exist_ok=True)
                os.chmod(p, e[2] if len(e) > 2 and e[2] is not None else 0o755)
            elif e[0] == "f":
                os.makedirs(os.path.dirname(p), exist_ok=True)
                with open(p, "wb") as f:
                    f.write(e[2])
                os.chmod(p, e[3] if len(e) > 3 and e[3] is not None else 0o644)
            elif e[0] == "l":
                os.makedirs(os.path.dirname(p), exist_ok=True)
                os.symlink(e[2], p)
            elif e[0] == "h":
                os.makedirs(os.path.dirname(p), exist_ok=True)
                os.link(os.path.join(root, e[2]), p)
            else:
                raise ValueError(e)


def snapshot(root: str, with_ino: bool = False) -> dict:
    """rel path -> ("d", mode) | ("f", mode, bytes) | ("l", target).  Does not follow links."""
    out = {}
    lstat, readlink, scandir = _r("lstat"), _r("readlink"), _r("scandir")
    ropen = seam._real.get("io.open") or open
    stack = [""]
    while stack:
        rel = stack.pop()
        p = os.path.join(root, rel) if rel else root
        try:
            st = lstat(p)
        except OSError:
            continue
        if _stat.S_ISLNK(st.st_mode):
            out[rel] = ("l", readlink(p))
        elif _stat.S_ISDIR(st.st_mode):
            out[rel] = ("d", st.st_mode & 0o7777)
            try:
                with scandir(p) as it:
                    names = sorted(e.name for e in it)
            except OSError:
                names = []
            for n in names:
                stack.append(os.path.join(rel, n) if rel else n)
        elif _stat.S_ISREG(st.st_mode):
            try:
                with ropen(p, "rb") as f:
                    data = f.read()
            except OSError:
                data = None
            out[rel] = ("f", st.st_mode & 0o7777, data) + (((st.st_dev, st.st_ino),) if with_ino else ())
        else:
            out[rel] = ("o", st.st_mode)
    return out


def diff(a: dict, b: dict) -> list:
    """Human-readable differences between two snapshots (empty list = identical)."""
    out = []
    for k in sorted(set(a) | set(b)):
        x, y = a.get(k), b.get(k)
        if x is not None:
            x = x[:3]
        if y is not None:
            y = y[:3]
        if x == y:
            continue
        if x is None:
            out.append(f"+ {k or '.'} {_desc(y)}")
        elif y is None:
            out.append(f"- {k or '.'} {_desc(x)}")
        else:
            out.append(f"~ {k or '.'} {_desc(x)} -> {_desc(y)}")
    return out


def _desc(n):
    if n[0] == "f":
        d = n[2]
        return f"file mode={oct(n[1])} len={None if d is None else len(d)} sha={None if d is None else hashlib.sha256(d).hexdigest()[:10]}"
    if n[0] == "d":
        return f"dir mode={oct(n[1])}"
    if n[0] == "l":
        return f"link->{n[1]}"
    return str(n)


def sha(b: bytes) -> str:
    return hashlib.sha256(b).hexdigest()


# --------------------------------------------------------------------------- #
# power-loss model
# --------------------------------------------------------------------------- #


def powerloss_states(initial: dict, sim, root: str, target_rel: str, current: dict):
    """Enumerate the legal post-crash states of ``target_rel``.

    Pessimistic POSIX model (ordered metadata, unordered un-synced data):
      * the namespace operations performed so far (create, mkdir, rename, unlink,
        chmod) become durable in order; any prefix of them may have reached disk;
      * a file's data is durable exactly up to its last successful fsync; data
        written after that (or never synced) may be absent, present, or present
        as any prefix; a file that existed before the run and was never modified
        keeps its content.

    Yields (label, node) where node is None (absent) or ("f", mode, bytes) / ("d",) / ("l", t).
    ``current`` is a with_ino snapshot of the tree at the crash instant (gives the
    bytes written so far per inode).
    """
    # inode -> bytes currently in the file
    cur_bytes = {}
    for rel, node in current.items():
        if node[0] == "f" and len(node) > 3:
            cur_bytes[node[3]] = node[2]
    ns = sim.fslog
    root = root.rstrip("/")

    def rel(p):
        return p[len(root) + 1:] if p.startswith(root + "/") else p

    seen = set()
    for j in range(len(ns) + 1):
        # name table: rel -> ("init", node) | ("ino", ino, mode) | ("d",) | ("l", t)
        table = {k: ("init", v) for k, v in initial.items()}
        modes = {}
        for op in ns[:j]:
            kind = op[0]
            if kind == "create":
                table[rel(op[1])] = ("ino", op[2])
                modes[op[2]] = op[3]
            elif kind == "mkdir":
                table[rel(op[1])] = ("d",)
            elif kind == "rename":
                s, d = rel(op[1]), rel(op[2])
                if s in table:
                    ent = table.pop(s)
                    table[d] = ent
                    # children of a renamed directory are not tracked (never happens in this code base)
            elif kind in ("unlink", "rmdir"):
                table.pop(rel(op[1]), None)
            elif kind == "chmod_ino":
                modes[op[1]] = op[2]
            elif kind == "chmod":
                ent = table.get(rel(op[1]))
                if ent and ent[0] == "ino":
                    modes[ent[1]] = op[2]
            elif kind == "symlink":
                table[rel(op[1])] = ("l", op[2])
            elif kind == "link":
                s, d = rel(op[1]), rel(op[2])
                if s in table:
                    table[d] = table[s]
        ent = table.get(target_rel)
        if ent is None:
            key = (j, "absent")
            if ("absent",) not in seen:
                seen.add(("absent",))
                yield (f"ns_prefix={j}: absent", None)
            continue
        if ent[0] == "init":
            node = ent[1]
            ino = node[3] if node[0] == "f" and len(node) > 3 else None
            st = sim.ino_state.get(ino) if ino is not None else None
            if st is None:
                variants = [("unmodified", node[:3])]
            else:
                # modified in place during the run
                variants = _variants(node[2], st, cur_bytes.get(ino, b""), node[1])
        elif ent[0] == "ino":
            ino = ent[1]
            st = sim.ino_state.get(ino, {"synced": None, "dirty": True})
            variants = _variants(None, st, cur_bytes.get(ino, b""), modes.get(ino, 0o600))
        else:
            variants = [("nonfile", ent)]
        for lab, node in variants:
            sig = (node[0],) + tuple(node[1:3]) if node else ("absent",)
            if sig in seen:
                continue
            seen.add(sig)
            yield (f"ns_prefix={j}: {lab}", node)


def _variants(initial_bytes, st, now: bytes, mode):
    """Possible durable contents of one inode."""
    synced = st.get("synced")
    if synced == "INITIAL":
        synced = initial_bytes
    out = []
    if not st.get("dirty"):
        out.append(("synced", ("f", mode, synced if synced is not None else now)))
        return out
    base = synced if synced is not None else b""
    out.append(("unsynced->last-durable", ("f", mode, base)))
    out.append(("unsynced->empty", ("f", mode, b"")))
    if len(now) > 1:
        out.append(("unsynced->prefix", ("f", mode, now[: len(now) // 2])))
    out.append(("unsynced->all", ("f", mode, now)))
    return out
