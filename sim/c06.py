"""C06 -- results depend only on the input: same bytes in, same bytes out, everywhere.

Golden results are computed in pristine forks of an interpreter that has imported the package and never served
a call.  The same calls are then executed under seeded variations of everything the property quantifies over and
compared byte for byte (routing timestamps and the sandbox root masked).  See DESIGN.md section 5.
"""

from __future__ import annotations

import copy
import json
import os
import select
import shutil
import signal
import subprocess
import sys
import threading
import time

from . import c06_calls, docs
from .common import REPO_SRC
from .runner import VERIF, Stats, digest
from .tape import Tape, derive_seed

PROP = "C06"
LEVEL = "exploration"
E0 = 1_700_000_000.0

WS = None  # workspace of this check process (created before the pool forks)
POOL: list = []


# --------------------------------------------------------------------------- #
# workspace
# --------------------------------------------------------------------------- #


def make_workspace() -> dict:
    global WS
    top = os.environ.get("VERIF_SCRATCH_BASE") or ("/dev/shm" if os.path.isdir("/dev/shm") else "/var/tmp")
    base = os.path.realpath(os.path.join(top, f"ovc06-{os.getpid()}"))
    if os.path.isdir(base):
        shutil.rmtree(base)
    projs = [os.path.join(base, "proj0"), os.path.join(base, "deep", "er", "nested", "proj1"), os.path.join(base, "with space", "proj2")]
    for p in projs:
        c06_calls.make_project_dir(p)
    empty = os.path.join(base, "empty")
    os.makedirs(empty)
    WS = {"base": base, "projs": projs, "empty": empty, "owner": os.getpid()}
    import atexit

    atexit.register(cleanup_workspace)
    return WS


def cleanup_workspace():
    if WS and WS["owner"] == os.getpid():
        shutil.rmtree(WS["base"], ignore_errors=True)


def sandbox_dir(tag: str) -> str:
    d = os.path.join(WS["base"], f"sb-{os.getpid()}-{tag}")
    os.makedirs(d, exist_ok=True)
    return d


_small_corpus = None


def small_corpus():
    """Repository documents that parse, selected IN A FORK: this interpreter must never run the package's code itself
    (it is the pristine parent every golden run is forked from)."""
    global _small_corpus
    if _small_corpus is None:
        _small_corpus = [tuple(x) for x in in_fork(lambda: [(n, t) for n, t in docs.corpus() if len(t) <= 5000], timeout=300)]
    return _small_corpus


def make_pool(vseed: int, n: int) -> list:
    corpus = small_corpus()
    out = []
    for i in range(n):
        t = Tape(derive_seed(vseed, PROP, "pool", i))
        out.append(c06_calls.gen_call(t, i, corpus))
    return out


# --------------------------------------------------------------------------- #
# forking helpers
# --------------------------------------------------------------------------- #


from .common import ForkError, in_fork  # noqa: E402


_golden: dict = {}


def golden(call: dict) -> str:
    key = digest(call)
    if key in _golden:
        return _golden[key]

    def fn():
        os.chdir(WS["projs"][0])
        c06_calls.install_clock(c06_calls.SimClock(E0))
        return c06_calls.exec_call_sync(call, sandbox_dir("g"))

    val = in_fork(fn)
    if len(_golden) > 4000:
        _golden.clear()
    _golden[key] = val
    return val


# --------------------------------------------------------------------------- #
# dimension 1: fresh interpreters across the configuration grid
# --------------------------------------------------------------------------- #

HASHSEEDS = ["0", "1", "2", "3", "42"]
LOCALES = [None, "C", "C.UTF-8", "POSIX"]
TZS = ["UTC", "Asia/Kolkata", "America/St_Johns"]
UMASKS = [0o022, 0o077, 0o000]


def gen_config(t: Tape, i: int) -> dict:
    hs = (HASHSEEDS + [str(1000 + t.choose(1 << 20, "cfg.hs")) for _ in range(4)] + ["random"])
    cfg = {
        "hashseed": hs[i % len(hs)],
        "cwd": t.weighted([("proj0", 2), ("proj1", 3), ("proj2", 3), ("/", 1), ("empty", 1)], "cfg.cwd"),
        "locale": LOCALES[(i // 2) % len(LOCALES)] if i < 16 else t.pick(LOCALES, "cfg.loc"),
        "tz": t.pick(TZS, "cfg.tz"),
        "umask": t.pick(UMASKS, "cfg.umask"),
        "epoch": t.pick([E0, 0.0, 4_102_444_800.0, 951_782_400.0], "cfg.epoch"),
        "history": t.choose(4, "cfg.hist"),
        # who and where the process is: user, host, terminal, HOME -- none of it is an argument of a call
        "ident": t.choose(len(IDENTS), "cfg.ident"),
    }
    return cfg


IDENTS = [
    {},
    {"USER": "alice", "LOGNAME": "alice", "HOSTNAME": "build-7", "COLUMNS": "40", "LINES": "10", "TERM": "dumb", "NO_COLOR": "1", "HOME": "<SB>/home-a"},
    {"USER": "bob", "LOGNAME": "bob", "HOSTNAME": "laptop.example.org", "COLUMNS": "220", "TERM": "xterm-256color", "FORCE_COLOR": "1",
     "CLICOLOR_FORCE": "1", "HOME": "<SB>/home-b", "TMPDIR": "<SB>/tmp-b"},
    {"USER": "", "HOSTNAME": "h", "COLUMNS": "1", "TERM": "", "HOME": "/nonexistent"},
]


def cwd_path(name: str) -> str:
    return {"proj0": WS["projs"][0], "proj1": WS["projs"][1], "proj2": WS["projs"][2], "/": "/", "empty": WS["empty"]}[name]


def run_interpreter(cfg: dict, calls: list, history: list, timeout: float = 600.0) -> dict:
    env = {k: v for k, v in os.environ.items() if k not in ("LANG", "LC_ALL", "LC_CTYPE", "LANGUAGE", "PYTHONHASHSEED", "TZ",
                                                             "COVERAGE_PROCESS_START", "COVERAGE_PROCESS_CONFIG", "PYTHONUTF8")}
    env["PYTHONHASHSEED"] = cfg["hashseed"]
    if cfg.get("locale"):
        env["LANG"] = cfg["locale"]
        env["LC_ALL"] = cfg["locale"]
    env["TZ"] = cfg["tz"]
    pp = [VERIF]
    if os.environ.get("VERIF_REPO_SRC"):
        pp.insert(0, os.environ["VERIF_REPO_SRC"])
    env["PYTHONPATH"] = os.pathsep.join(pp)
    sb = sandbox_dir(f"i{abs(hash(json.dumps(cfg, sort_keys=True))) % 10 ** 8}")
    ident = IDENTS[cfg.get("ident", 0) % len(IDENTS)]
    for k, v in ident.items():
        v = v.replace("<SB>", sb)
        env[k] = v
        if k == "TMPDIR":
            os.makedirs(v, exist_ok=True)
    if ident.get("HOSTNAME"):
        env["VERIF_FAKE_HOST"] = ident["HOSTNAME"]  # the worker makes socket.gethostname()/platform.node() answer with it
    job = {"sandbox": sb, "calls": calls, "history": history, "clock": {"epoch": cfg["epoch"]}, "umask": cfg["umask"]}
    p = subprocess.run([sys.executable, "-m", "sim.c06_worker"], input=json.dumps(job), capture_output=True, text=True, env=env,
                       cwd=cwd_path(cfg["cwd"]), timeout=timeout)
    line = [ln for ln in p.stdout.splitlines() if ln.startswith("RESULT ")]
    if p.returncode != 0 or not line:
        raise ForkError(f"interpreter worker failed rc={p.returncode}: {p.stdout[-500:]} {p.stderr[-1500:]}")
    shutil.rmtree(sb, ignore_errors=True)
    return json.loads(line[0][7:])


def first_diff(a: str, b: str) -> tuple[str, str]:
    """(generalised JSON path of the first difference, short description)"""
    try:
        x, y = json.loads(a), json.loads(b)
    except Exception:  # noqa: BLE001
        return "<raw>", f"{a[:120]!r} vs {b[:120]!r}"

    def walk(p, u, v):
        if type(u) is not type(v):
            return p, f"{str(u)[:100]!r} vs {str(v)[:100]!r}"
        if isinstance(u, dict):
            ku, kv = list(u), list(v)
            if ku != kv:
                return p + ".<keys>", f"{ku} vs {kv}"
            for k in ku:
                r = walk(p + "." + k, u[k], v[k])
                if r:
                    return r
            return None
        if isinstance(u, list):
            if len(u) == 2 and isinstance(u[0], str) and len(v) == 2 and u[0] == v[0] and not isinstance(u[1], (dict,)) and p.endswith("[]"):
                r = walk(p[:-2] + "." + u[0], u[1], v[1])
                return r
            if len(u) != len(v):
                return p + ".<len>", f"{len(u)} vs {len(v)}: {str(u)[:80]} vs {str(v)[:80]}"
            for i in range(len(u)):
                r = walk(p + "[]", u[i], v[i])
                if r:
                    return r
            return None
        if u != v:
            return p, f"{str(u)[:100]!r} vs {str(v)[:100]!r}"
        return None

    r = walk("$", x, y)
    return r if r else ("<equal-after-parse>", "")


def run_grid_case(case: dict, stats: Stats | None = None) -> dict:
    cfg = case["cfg"]
    calls = case["calls"]
    history = case.get("history", [])
    got = run_interpreter(cfg, calls, history)
    viols = []
    log = [cfg, []]
    for c in calls:
        g = golden(c)
        r = got["results"][str(c["id"])]
        same = g == r
        log[1].append([c["id"], c["api"], same])
        if stats is not None:
            stats.inc("evaluations")
            stats.inc("grid_evaluations")
            stats.group("apis", c["api"])
            stats.distinct("calls", digest(c))
        if not same:
            path, desc = first_diff(g, r)
            viols.append({"clause": "config", "signature": f"C06|{c['api']}|{path}",
                          "detail": f"{c['api']} (call {c['id']}, schema={c.get('schema')}, doc={c.get('doc_kind')}) differs from the pristine "
                                    f"golden run under configuration {cfg}: at {path}: {desc}", "call": c})
    if stats is not None:
        stats.inc("runs")
        stats.inc("interpreters")
        stats.distinct("configs", json.dumps({k: cfg.get(k) for k in ("hashseed", "cwd", "locale", "tz", "umask", "ident")}, sort_keys=True))
        for k in ("hashseed", "cwd", "locale", "tz", "umask", "epoch", "ident"):
            stats.group("cfg_" + k, str(cfg.get(k)))
        stats.group("worker_encoding", got["env"]["locale"])
    return {"violations": viols, "log": log, "digest": digest(log)}


# --------------------------------------------------------------------------- #
# dimensions 2-6 inside forks of the pristine interpreter
# --------------------------------------------------------------------------- #


SHARED_LINES = None


def compute_shared_lines() -> frozenset:
    """Source lines of the package that touch state shared between callers: stores to module globals, loads of module-level
    mutable containers, accesses to mutable class attributes, and attribute stores inside the (shared) tool classes.
    Only code objects are inspected -- nothing of the package is executed, so the interpreter stays pristine."""
    global SHARED_LINES
    if SHARED_LINES is not None:
        return SHARED_LINES
    import collections
    import dis
    import types

    mut = (list, dict, set, bytearray, collections.deque)

    def code_objects(co):
        yield co
        for c in co.co_consts:
            if isinstance(c, types.CodeType):
                yield from code_objects(c)

    mods = [m for n, m in sorted(sys.modules.items()) if n.startswith("octave_mcp") and m is not None]
    mut_attr = set()
    for m in mods:
        for v in list(vars(m).values()):
            if isinstance(v, type) and getattr(v, "__module__", "").startswith("octave_mcp"):
                for k, a in vars(v).items():
                    if isinstance(a, mut) and not k.startswith("__"):
                        mut_attr.add(k)
    mutators = {"append", "add", "update", "pop", "clear", "extend", "insert", "remove", "setdefault", "popitem", "discard", "sort",
                "reverse", "appendleft", "popleft", "__setitem__", "__delitem__"}
    per_line: dict = {}  # (file, line) -> {"names": set, "ops": set, "attrs": set, "tool": bool}
    for m in mods:
        f = getattr(m, "__file__", None)
        if not f or not f.endswith(".py"):
            continue
        try:
            with open(f, encoding="utf-8") as fh:
                top = compile(fh.read(), f, "exec")
        except (OSError, SyntaxError):
            continue
        g = vars(m)
        rf = os.path.realpath(f)
        in_tools = os.sep + "mcp" + os.sep in f
        for co in code_objects(top):
            if co is top:
                continue
            line = None
            for ins in dis.get_instructions(co):
                if ins.starts_line is not None:
                    line = ins.starts_line
                if line is None:
                    continue
                rec = per_line.setdefault((rf, line), {"names": set(), "stores": set(), "ops": set(), "attrs": set(), "tool": in_tools})
                rec["ops"].add(ins.opname)
                if ins.opname in ("STORE_GLOBAL", "DELETE_GLOBAL"):
                    rec["stores"].add((rf, ins.argval))
                elif ins.opname in ("LOAD_GLOBAL", "LOAD_NAME") and isinstance(g.get(ins.argval), mut):
                    rec["names"].add((rf, ins.argval))
                elif ins.opname in ("LOAD_ATTR", "STORE_ATTR", "LOAD_METHOD"):
                    rec["attrs"].add((ins.opname, ins.argval))
    # names of shared variables that are WRITTEN somewhere (a race needs at least one writer)
    written = set()
    for rec in per_line.values():
        written |= rec["stores"]
        mutating = bool(rec["ops"] & {"STORE_SUBSCR", "DELETE_SUBSCR"}) or any(a in mutators for _, a in rec["attrs"])
        if mutating:
            written |= rec["names"]
    marked = set()
    for key, rec in per_line.items():
        if rec["stores"] & written or rec["names"] & written:
            marked.add(key)
        # attribute stores inside the tool classes (one tool instance is shared by all requests) and on mutable class attributes
        if any(op == "STORE_ATTR" and (rec["tool"] or a in mut_attr) for op, a in rec["attrs"]):
            marked.add(key)
        if any(a in mut_attr and a not in ("_member_map_", "_member_names_", "_value2member_map_", "_unhashable_values_")
               for _, a in rec["attrs"]) and (rec["ops"] & {"STORE_SUBSCR", "DELETE_SUBSCR"} or any(a in mutators for _, a in rec["attrs"])):
            marked.add(key)
    SHARED_LINES = frozenset(marked)
    return SHARED_LINES


class LineSched:
    """Caller threads pre-empted at line granularity inside the repository's source files; the tape decides.
    policy 'uniform': every line event switches with probability permille/1000.
    policy 'focus'  : lines that touch shared state (compute_shared_lines) switch with probability 1/2, all other lines with
                      the (small) background probability -- races need two callers inside the same shared-state region."""

    def __init__(self, tape: Tape, permille: int, prefix: str, max_switches: int = 20000, focus: frozenset | None = None):
        self.tape = tape
        self.permille = permille
        self.focus = focus
        self.focus_hits = 0
        # dynamic shared-object detection: objects whose methods have been entered by more than one caller thread
        self.tls = threading.local()
        self.blocked: set = set()  # ids of caller threads stuck in a REAL lock held by a parked thread (see _recover)
        self.prev = None
        self.lock_recoveries = 0
        self.obj_threads: dict = {}
        self.obj_jobs: dict = {}
        self.job_no = 0
        self.warming = False
        self.obj_keep: dict = {}
        self.code_lines: dict = {}
        self.shared_obj_hits = 0
        self.prefix = prefix
        self.threads: list = []
        self.main = threading.Semaphore(0)
        self.cur = None
        self.line_events = 0
        self.switches = 0
        self.max_switches = max_switches
        self.errors: list = []

    _MUTATORS = frozenset({"append", "add", "update", "pop", "clear", "extend", "insert", "remove", "setdefault", "popitem", "discard",
                           "sort", "reverse", "appendleft", "popleft"})

    def _self_store_lines(self, code):
        """Lines of this code object that write through ``self`` (self.x = ..., self.x.append(...), self.x[k] = ...)."""
        got = self.code_lines.get(code)
        if got is None:
            import dis

            lines, line, has_self, marks = set(), None, False, False
            for ins in dis.get_instructions(code):
                if ins.starts_line is not None:
                    if line is not None and has_self and marks:
                        lines.add(line)
                    line, has_self, marks = ins.starts_line, False, False
                if ins.opname in ("LOAD_FAST", "LOAD_FAST_CHECK") and ins.argval == "self":
                    has_self = True
                elif ins.opname in ("STORE_ATTR", "STORE_SUBSCR", "DELETE_SUBSCR", "DELETE_ATTR"):
                    marks = True
                elif ins.opname in ("LOAD_ATTR", "LOAD_METHOD") and ins.argval in self._MUTATORS:
                    marks = True
            if line is not None and has_self and marks:
                lines.add(line)
            got = self.code_lines[code] = frozenset(lines)
        return got

    def _trace(self, frame, event, arg):
        code = frame.f_code
        if not code.co_filename.startswith(self.prefix):
            return None
        if self.focus is None or code.co_argcount == 0 or code.co_varnames[0] != "self":
            return self._line
        store_lines = self._self_store_lines(code)
        if not store_lines:
            return self._line
        try:
            obj = frame.f_locals["self"]
        except KeyError:
            return self._line
        oid = id(obj)
        users = self.obj_threads.get(oid)
        if users is None:
            if len(self.obj_keep) < 200000:
                self.obj_keep[oid] = obj  # keep it alive: an id must not be reused by another object
                users = self.obj_threads[oid] = set()
                self.obj_jobs[oid] = set()
            else:
                return self._line
        users.add(self.cur["id"] if self.cur else -1)
        jobs = self.obj_jobs[oid]
        jobs.add(self.cur["job"] if self.cur else 0)
        sched = self

        def line(frame, event, arg):
            if event == "line":
                sched._park_if_not_mine()
                sched.line_events += 1
                p = sched.permille
                ln = frame.f_lineno
                if (frame.f_code.co_filename, ln) in sched.focus:
                    sched.focus_hits += 1
                    p = 500
                elif ln in store_lines and (len(users) >= 2 or len(jobs) >= 2) and not sched.warming:
                    # a write through `self` on an object that several callers use, or that outlives the call that made it
                    # a write through `self` on an object that several callers are using
                    sched.shared_obj_hits += 1
                    p = 500
                if sched.switches < sched.max_switches and sched.tape.flag(p, "thr.sw"):
                    sched._switch()
            return line

        return line

    def _park_if_not_mine(self):
        me = getattr(self.tls, "t", None)
        if me is not None and self.cur is not me and not self.warming:
            # this thread was blocked inside a real lock when the baton moved on; it is runnable again now: wait for its turn
            self.blocked.discard(me["id"])
            me["sem"].acquire()
            self.cur = me

    def _line(self, frame, event, arg):
        if event == "line":
            self._park_if_not_mine()
            self.line_events += 1
            p = self.permille
            if self.focus is not None and (frame.f_code.co_filename, frame.f_lineno) in self.focus:
                self.focus_hits += 1
                p = 500
            if self.switches < self.max_switches and self.tape.flag(p, "thr.sw"):
                self._switch()
        return self._line

    def _switch(self):
        me = self.cur
        others = [t for t in self.threads if not t["done"] and t is not me and t["id"] not in self.blocked]
        if not others:
            return
        nxt = others[self.tape.choose(len(others), "thr.to")]
        self.switches += 1
        self.prev = me
        self.cur = nxt
        nxt["sem"].release()
        if not me["sem"].acquire(timeout=120):
            self.errors.append("thread parked too long")
            return
        self.cur = me

    def _recover(self):
        stuck = self.cur
        if stuck is None or stuck.get("done"):
            return
        cands = [t for t in self.threads if not t["done"] and t is not stuck and t["id"] not in self.blocked]
        if not cands:
            return
        nxt = self.prev if (self.prev in cands) else cands[0]
        self.blocked.add(stuck["id"])
        self.lock_recoveries += 1
        self.prev = stuck
        self.cur = nxt
        nxt["sem"].release()

    def warmup(self, jobs: list):
        """Serve the calls once, sequentially, under the tracer: objects that survive a call (caches, shared instances) become
        known, so that the concurrent phase can pre-empt exactly where callers write through them."""
        self.warming = True
        t = {"id": -1, "job": 0, "sem": None, "done": False}
        self.cur = t
        sys.settrace(self._trace)
        try:
            for job in jobs:
                self.job_no += 1
                t["job"] = self.job_no
                job()
        finally:
            sys.settrace(None)
            self.cur = None
            self.warming = False

    def _body(self, t):
        self.tls.t = t
        if not t["sem"].acquire(timeout=120):
            return
        self.cur = t
        sys.settrace(self._trace)
        try:
            for job in t["jobs"]:
                self.job_no += 1
                t["job"] = self.job_no
                job()
        except BaseException as e:  # noqa: BLE001
            self.errors.append(f"{type(e).__name__}: {e}")
        finally:
            sys.settrace(None)
            t["done"] = True
            rest = [x for x in self.threads if not x["done"] and x["id"] not in self.blocked] or [x for x in self.threads if not x["done"]]
            if rest:
                nxt = rest[self.tape.choose(len(rest), "thr.next")]
                self.cur = nxt
                nxt["sem"].release()
            else:
                self.main.release()

    def run(self, joblists: list):
        for i, jobs in enumerate(joblists):
            t = {"id": i, "jobs": jobs, "job": 0, "sem": threading.Semaphore(0), "done": False}
            t["thread"] = threading.Thread(target=self._body, args=(t,), daemon=True, name=f"caller-{i}")
            self.threads.append(t)
        for t in self.threads:
            t["thread"].start()
        first = self.threads[self.tape.choose(len(self.threads), "thr.first")]
        first["sem"].release()
        # the baton holder may block inside a REAL lock (threading.Lock in the code under test) that a parked thread holds:
        # nothing moves then.  Detect the stall and give the baton back to the thread that handed it over last (the holder);
        # the stuck thread parks itself as soon as it returns to Python (see _park_if_not_mine).
        deadline = time.time() + 600
        last, still = -1, 0
        while not self.main.acquire(timeout=0.05):
            if time.time() > deadline:
                raise ForkError("thread schedule did not finish")
            if self.line_events == last:
                still += 1
            else:
                last, still = self.line_events, 0
            if still >= 3:
                still = 0
                self._recover()
        for t in self.threads:
            t["thread"].join(timeout=60)
        if self.errors:
            raise ForkError("; ".join(self.errors[:3]))


def gen_variation(t: Tape, j: int, pool_n: int) -> dict:
    mode = t.weighted([("seq", 4), ("aio", 3), ("threads", 2)], "var.mode")
    nh = t.weighted([(0, 1), (3, 3), (8, 3), (20, 1)], "var.nh")
    npb = 1 + t.choose(6, "var.np")
    ids = list(range(pool_n))
    chosen = t.shuffle(ids, "var.ids")[: nh + npb] if pool_n <= 64 else [t.choose(pool_n, "var.id") for _ in range(nh + npb)]
    chosen = list(dict.fromkeys(chosen))
    probes = chosen[:npb]
    hist = chosen[npb:]
    var = {
        "mode": mode, "history": hist, "probes": probes,
        "cwd": t.weighted([("proj0", 2), ("proj1", 2), ("proj2", 2)], "var.cwd"),
        "epoch": t.pick([E0, 0.0, 4_102_444_800.0, 951_782_400.0, 1e9 + 0.5], "var.epoch"),
        "jumps": [t.pick([0.0, 3600.0, -86400.0, 1e-6, -0.5, 31_536_000.0], "var.jump") for _ in range(t.choose(6, "var.nj"))],
        "shuffle_dirs": bool(t.choose(2, "var.shuf")),
        "nasty_history": bool(t.choose(2, "var.nasty")),
        "siblings": t.pick(["none", "same_text", "same_call", "both", "near_twin", "near_twin"], "var.sib"),
        # unicode battery: every character served in position `first`, then probed in position `then`
        "unibattery": (None if t.choose(3, "var.ub") else
                       {"first": t.pick(list(c06_calls.UNI_POSITIONS), "var.ub1"), "then": t.pick(list(c06_calls.UNI_POSITIONS), "var.ub2"),
                        "chars": sorted({t.choose(len(c06_calls.UNI_CHARS), "var.ubc") for _ in range(6)})}),
        "tape": {"seed": t.choose(1 << 30, "var.tseed")},
    }
    # the garbage collector is part of "which calls the process served earlier": weak registries, id()-keyed caches and
    # __del__-time effects behave differently when cycles are (never / constantly / explicitly) collected
    var["gc"] = t.weighted([("default", 5), ("disabled", 2), ("collect_each", 2), ("threshold1", 1)], "var.gc")
    if mode == "threads":
        var["threads"] = 2 + t.choose(3, "var.k")
        var["twin"] = bool(t.choose(2, "var.twin"))
        var["policy"] = t.pick(["focus", "focus", "uniform"], "var.pol")
        var["preempt_permille"] = t.pick([200, 50, 10, 2], "var.p") if var["policy"] == "uniform" else t.pick([0, 0, 1, 5], "var.bg")
    if mode == "aio":
        var["delays"] = [t.pick([0, 0, 1, 3, 60], "var.delay") for _ in range(len(chosen))]
    return var


NASTY = [
    {"id": 900001, "api": "py.parse", "doc_kind": "garbage", "text": "A::" + "[" * 2000, "schema": "META"},
    {"id": 900002, "api": "tool.validate", "doc_kind": "garbage", "text": "===X===\n" + "B:\n" * 5 + "\tC::1\n", "schema": "GEN_A", "args": {"fix": True}},
    {"id": 900003, "api": "tool.write", "doc_kind": "garbage", "text": '===D===\nQ::"unterminated\n', "schema": "META", "mode": "content",
     "initial": None, "args": {"lenient": True, "parse_error_policy": "salvage"}},
    {"id": 900004, "api": "py.emit", "doc_kind": "big", "text": "===BIG===\n" + "".join(f"K{i}::[a,b,{i}]\n" for i in range(1500)) + "===END===\n",
     "schema": "META"},
    {"id": 900005, "api": "tool.eject", "doc_kind": "template", "text": None, "schema": "NOPE", "args": {"mode": "executive", "format": "yaml"}},
    {"id": 900006, "api": "py.gbnf_schema", "doc_kind": "none", "text": "", "schema": "GEN_B"},
]


def run_variation_child(var: dict, calls_by_id: dict, tape_values=None) -> dict:
    """Executed INSIDE a fork of the pristine interpreter.  Returns {probe id: serialised result, '_meta': {...}}"""
    import asyncio

    from . import loop as simloop

    os.chdir(cwd_path(var["cwd"]))
    import gc as _gc

    gcm = var.get("gc", "default")
    if gcm == "disabled":
        _gc.disable()
    elif gcm == "threshold1" and var["mode"] != "threads":
        _gc.set_threshold(1, 1, 1)
    clock = c06_calls.SimClock(var["epoch"], var.get("jumps"))
    c06_calls.install_clock(clock)
    tape = Tape(values=tape_values) if tape_values is not None else Tape(**({"values": var["tape"]["values"]} if "values" in var["tape"]
                                                                           else {"seed": var["tape"]["seed"]}))
    if var.get("shuffle_dirs"):
        real_scandir, real_listdir = os.scandir, os.listdir

        class _It:
            def __init__(self, ents):
                self._it = iter(ents)

            def __iter__(self):
                return self

            def __next__(self):
                return next(self._it)

            def close(self):
                pass

            def __enter__(self):
                return self

            def __exit__(self, *a):
                return False

        def scandir(path="."):
            with real_scandir(path) as it:
                ents = sorted(list(it), key=lambda e: e.name)
            return _It(tape.shuffle(ents, "dirorder"))

        def listdir(path="."):
            return tape.shuffle(sorted(real_listdir(path)), "dirorder")

        os.scandir, os.listdir = scandir, listdir
    sb = sandbox_dir("v")
    hist = [calls_by_id[i] for i in var["history"]]
    sib = var.get("siblings", "none")
    if sib != "none":
        # the same bytes served earlier by this process through another entry point (validate-then-write is the normal workflow),
        # and the very same call served twice
        for pid_ in var["probes"]:
            c0 = calls_by_id[pid_]
            # choices about a probe's companions come from a tape of their own (keyed by the probe), so that dropping OTHER
            # probes while minimising does not change them
            ptape = Tape(derive_seed(int(var["tape"].get("seed", 0) or 0), PROP, "companions", pid_))
            if sib in ("same_text", "both") and c0.get("text"):
                k_ = ptape.choose(3, "sib.kind")
                base = {"doc_kind": c0.get("doc_kind"), "text": c0["text"], "schema": c0.get("schema", "META")}
                if k_ == 0:
                    hist.append(dict(base, id=500000 + pid_, api="tool.write", mode="content", initial=None,
                                     args={"lenient": True, "mutations": {"STATUS": "ACTIVE", "INJECTED": ["h", 1]}, "schema": base["schema"]}))
                elif k_ == 1:
                    hist.append(dict(base, id=500000 + pid_, api="tool.validate", args={"fix": True, "profile": "LENIENT"}))
                else:
                    hist.append(dict(base, id=500000 + pid_, api="py.repair"))
            if sib in ("same_call", "both"):
                hist.append(dict(c0, id=600000 + pid_))
            if sib == "near_twin" and c0.get("text"):
                # the SAME call on an almost identical text (another normalisation form, case, whitespace): whatever the
                # process remembers about the twin must not leak into the answer for the probe
                for rep, tw in enumerate(c06_calls.near_twins(c0["text"])):
                    hist.append(dict(c0, id=650000 + pid_ * 16 + rep, text=tw))
    if var.get("nasty_history"):
        hist = hist + NASTY
        hist = tape.shuffle(hist, "hist.order")
    probes = [calls_by_id[i] for i in var["probes"]]
    ub = var.get("unibattery")
    if ub:
        bat = c06_calls.uni_battery()
        hist = hist + bat[ub["first"]]  # every character, in the first position
        per = 2
        probes = probes + [c for i in ub["chars"] for c in bat[ub["then"]][i * per:(i + 1) * per]]
    out: dict = {}
    meta = {"mode": var["mode"]}
    if var["mode"] == "seq":
        for c in hist:
            c06_calls.exec_call_sync(c, sb)
            if gcm == "collect_each":
                _gc.collect()
        for c in probes:
            out[str(c["id"])] = c06_calls.exec_call_sync(c, sb)
            if gcm == "collect_each":
                _gc.collect()
    elif var["mode"] == "aio":
        delays = var.get("delays") or []
        everything = [(c, False) for c in hist] + [(c, True) for c in probes]
        everything = tape.shuffle(everything, "aio.order")

        async def one(k, c, probe):
            d = delays[k % len(delays)] if delays else 0
            if d:
                await asyncio.sleep(d)
            r = await c06_calls.exec_call_async(c, sb)
            if probe:
                out[str(c["id"])] = r

        async def main(lp):
            tasks = [lp.create_task(one(k, c, p), name=f"call-{k}") for k, (c, p) in enumerate(everything)]
            await asyncio.gather(*tasks)

        _, lp = simloop.run(tape, main, start_time=var["epoch"])
        meta.update(loop_steps=lp.steps, loop_choices=lp.choices, virtual_seconds=lp.time() - var["epoch"], max_ready=lp.max_ready)
    else:
        k = var.get("threads", 2)
        lists = [[] for _ in range(k)]
        # probes first, spread over the threads, so that they overlap in time; then the (small) history calls.
        # 'twin': every probe is also issued by a second caller at the same moment (same bytes in -> same bytes out for both)
        pj = [(c, True) for c in probes]
        if var.get("twin"):
            pj = [x for c in probes for x in ((c, True), (dict(c, id=700000 + c["id"]), True))]
        # (history is explored by the other modes; under the tracer keep it to a few small calls)
        everything = pj + tape.shuffle([(c, False) for c in hist if len(c.get("text") or "") <= 800], "thr.order")[:4]

        def mk(c, probe):
            def job():
                r = c06_calls.exec_call_sync(c, sb)
                if probe:
                    out[str(c["id"])] = r
            return job

        for i, (c, p) in enumerate(everything):
            lists[i % k].append(mk(c, p))
        sched = LineSched(tape, var.get("preempt_permille", 20), os.path.realpath(REPO_SRC),
                          focus=compute_shared_lines() if var.get("policy") == "focus" else None)
        if var.get("policy") == "focus" and var.get("warmup", True):
            # a long-lived server has served such calls before: do so once, sequentially (results discarded)
            sched.warmup([mk(dict(c, id=800000 + c["id"]), False) for c, p in pj])
        sched.run([l for l in lists if l])
        meta.update(line_events=sched.line_events, switches=sched.switches, focus_hits=sched.focus_hits,
                    shared_obj_hits=sched.shared_obj_hits, lock_recoveries=sched.lock_recoveries)
    meta["clock_reads"] = clock.reads
    meta["tape_len"] = len(tape.values)
    out["_meta"] = meta
    out["_tape"] = tape.values[:20000]
    return out


def dims_of(var: dict) -> list:
    d = []
    if var["history"] or var.get("nasty_history"):
        d.append("history")
    if var.get("siblings", "none") != "none":
        d.append("same-bytes-earlier")
    if var.get("unibattery"):
        d.append("unicode-position-battery")
    if var["mode"] != "seq":
        d.append(var["mode"])
    if var["epoch"] != E0 or var.get("jumps"):
        d.append("clock")
    if var.get("shuffle_dirs"):
        d.append("dirorder")
    if var["cwd"] != "proj0":
        d.append("cwd")
    if var.get("gc", "default") != "default":
        d.append("gc")
    return d


def run_var_case(case: dict, stats: Stats | None = None) -> dict:
    var = case["var"]
    calls_by_id = {int(k): v for k, v in case["calls"].items()}
    out = in_fork(lambda: run_variation_child(var, calls_by_id), timeout=900)
    meta = out.pop("_meta")
    tape_vals = out.pop("_tape")
    viols = []
    log = [dims_of(var), []]
    compare = [(pid, str(pid)) for pid in var["probes"]]
    if var.get("unibattery"):
        bat = c06_calls.uni_battery()
        for i in var["unibattery"]["chars"]:
            for c in bat[var["unibattery"]["then"]][i * 2:(i + 1) * 2]:
                calls_by_id[c["id"]] = c
                compare.append((c["id"], str(c["id"])))
    if var["mode"] == "threads" and var.get("twin"):
        compare += [(pid, str(700000 + pid)) for pid in var["probes"]]
    for pid, key in compare:
        c = calls_by_id[pid]
        g = golden(c)
        r = out.get(key)
        if key != str(pid) and r is not None:
            r = r.replace(f"call{700000 + pid}", f"call{pid}")
        same = g == r
        log[1].append([pid, c["api"], same])
        if stats is not None:
            stats.inc("evaluations")
            stats.inc("var_evaluations")
            stats.group("apis", c["api"])
            stats.distinct("calls", digest(c))
        if not same:
            path, desc = first_diff(g, r or "null")
            viols.append({"clause": "variation", "signature": f"C06|{c['api']}|{path}",
                          "detail": f"{c['api']} (call {pid}, schema={c.get('schema')}, doc={c.get('doc_kind')}) differs from the pristine golden run "
                                    f"under variation dims={dims_of(var)} mode={var['mode']}: at {path}: {desc}", "call": c})
    if stats is not None:
        stats.inc("runs")
        stats.inc("var_runs")
        d = dims_of(var)
        stats.group("var_modes", var["mode"])
        for x in d:
            stats.group("var_dims", x)
        if len(d) >= 2:
            stats.inc("nontrivial_runs")
            stats.inc("nontrivial_evaluations", len(var["probes"]))
        stats.distinct("var_shapes", repr((tuple(d), len(var["history"]), var.get("threads"), var.get("preempt_permille"))))
        stats.inc("history_calls_served", len(var["history"]) + (len(NASTY) if var.get("nasty_history") else 0))
        for k in ("loop_steps", "loop_choices", "line_events", "switches", "clock_reads", "focus_hits", "shared_obj_hits", "lock_recoveries"):
            if k in meta:
                stats.inc(k, int(meta[k]))
        if "virtual_seconds" in meta:
            stats.inc("virtual_seconds", int(meta["virtual_seconds"]))
    return {"violations": viols, "log": log, "digest": digest(log), "tape": tape_vals}


# --------------------------------------------------------------------------- #
# units, replay, minimisation
# --------------------------------------------------------------------------- #


def ensure_ws():
    if WS is None or not os.path.isdir(WS["base"]):
        make_workspace()


def run_case(case: dict, stats: Stats | None = None) -> dict:
    ensure_ws()
    c06_calls.import_everything()
    compute_shared_lines()
    if case["kind"] == "grid":
        return run_grid_case(case, stats)
    return run_var_case(case, stats)


def units(tier: str, vseed: int) -> list:
    if tier == "quick":
        n_cfg, per_cfg, n_var_units, per_var = 32, 60, 96, 10
    else:
        n_cfg, per_cfg, n_var_units, per_var = 400, 150, 1600, 25
    out = []
    for i in range(n_cfg):
        out.append({"kind": "grid", "i": i, "n": per_cfg, "vseed": vseed})
    for i in range(n_var_units):
        out.append({"kind": "var", "start": i * per_var, "count": per_var, "vseed": vseed})
    nb = len(c06_calls.state_battery())
    step = 60
    for lo in range(0, nb * nb, step):
        out.append({"kind": "bpair", "lo": lo, "hi": min(lo + step, nb * nb), "start": lo, "count": step, "vseed": vseed})
    # interleave so that a wall cap leaves both kinds covered
    out.sort(key=lambda u: (u.get("i", u.get("start", 0) // max(1, u.get("count", 1))) % 16, u["kind"]))
    return out


def grid_case(vseed: int, i: int, n: int) -> dict:
    t = Tape(derive_seed(vseed, PROP, "grid", i))
    cfg = gen_config(t, i)
    ids = [t.choose(len(POOL), "grid.call") for _ in range(n)]
    ids = list(dict.fromkeys(ids))
    calls = [POOL[k] for k in ids] + c06_calls.order_battery()
    if cfg["cwd"] in ("/", "empty"):
        calls = [c for c in calls if not c06_calls.uses_generated_schema(c)]
    hist = [POOL[t.choose(len(POOL), "grid.h")] for _ in range(cfg["history"] * 5)]
    hist = [h for h in hist if h["id"] not in {c["id"] for c in calls}]
    if cfg["cwd"] in ("/", "empty"):
        hist = [h for h in hist if not c06_calls.uses_generated_schema(h)]
    return {"prop": PROP, "seed": derive_seed(vseed, PROP, "grid", i), "kind": "grid", "cfg": cfg, "calls": calls, "history": hist}


def var_case(vseed: int, j: int) -> dict:
    t = Tape(derive_seed(vseed, PROP, "var", j))
    var = gen_variation(t, j, len(POOL))
    ids = set(var["history"]) | set(var["probes"])
    if var["mode"] == "threads":
        # line-level tracing costs ~25x: keep probe documents small
        var["probes"] = [i for i in var["probes"] if len(POOL[i].get("text") or "") <= 1500] or var["probes"][:1]
        ids = set(var["history"]) | set(var["probes"])
    return {"prop": PROP, "seed": derive_seed(vseed, PROP, "var", j), "kind": "var", "var": var,
            "calls": {str(i): POOL[i] for i in sorted(ids)}}


def bpair_case(x: int) -> dict:
    """The x-th ordered pair (a, b) of the state battery as a sequential variation: history [a], probe b, nothing else varied."""
    bat = c06_calls.state_battery()
    a, b = bat[x // len(bat)], bat[x % len(bat)]
    if a["id"] == b["id"]:
        a = dict(a, id=a["id"] + 5000)  # the very same call served twice
    var = {"mode": "seq", "history": [a["id"]], "probes": [b["id"]], "cwd": "proj0", "epoch": E0, "jumps": [], "shuffle_dirs": False,
           "nasty_history": False, "siblings": "none", "unibattery": None, "gc": "default", "tape": {"values": []}}
    return {"prop": PROP, "seed": x, "kind": "var", "var": var, "calls": {str(a["id"]): a, str(b["id"]): b}, "battery_pair": x}


def run_unit(unit: dict):
    stats = Stats()
    viols = []
    cases = []
    if unit["kind"] == "bpair":
        for x in range(unit["lo"], unit["hi"]):
            cases.append(bpair_case(x))
            stats.inc("battery_pairs")
    elif unit["kind"] == "grid":
        cases.append(grid_case(unit["vseed"], unit["i"], unit["n"]))
    elif unit["kind"] == "det":
        for j in range(unit["lo"], unit["hi"]):
            res = run_case(var_case(unit["vseed"], j))
            stats.sample("det", (str(j), res["digest"] + ":" + str(len(res["violations"]))), cap=10 ** 9)
        return stats, viols
    else:
        for j in range(unit["start"], unit["start"] + unit["count"]):
            cases.append(var_case(unit["vseed"], j))
    for case in cases:
        res = run_case(case, stats)
        for v in res["violations"]:
            if len(viols) < 30:
                small = dict(case)
                if case["kind"] == "grid":
                    # everything this interpreter served before the failing call is its history
                    k = [c["id"] for c in case["calls"]].index(v["call"]["id"])
                    small["calls"] = [v["call"]]
                    small["history"] = list(case.get("history", [])) + case["calls"][:k]
                else:
                    pid_ = v["call"]["id"]
                    if case["var"]["mode"] == "threads":
                        # an interleaving is a property of ALL the jobs of the run: keep them
                        small["var"] = dict(case["var"])
                    else:
                        small["var"] = dict(case["var"], probes=[pid_] if str(pid_) in case["calls"] else [])
                viols.append({"clause": v["clause"], "signature": v["signature"], "detail": v["detail"], "case": small})
    return stats, viols


def minimise(case: dict, clause: str, sig: str, budget: int = 40) -> dict:
    runs = 0

    def fails(c):
        nonlocal runs
        runs += 1
        try:
            return any(v["signature"] == sig for v in run_case(c)["violations"])
        except Exception:  # noqa: BLE001
            return False

    cur = copy.deepcopy(case)
    if cur["kind"] == "grid":
        if cur["cfg"]["hashseed"] == "random":
            for hs in ("101", "102", "103", "104", "105", "1", "2"):
                c = copy.deepcopy(cur)
                c["cfg"]["hashseed"] = hs
                if fails(c):
                    cur = c
                    break
        for k, simple in (("history", 0), ("locale", None), ("tz", "UTC"), ("umask", 0o022), ("epoch", E0), ("cwd", "proj0"), ("ident", 0)):
            if cur["cfg"].get(k) != simple and runs < budget:
                c = copy.deepcopy(cur)
                c["cfg"][k] = simple
                if k == "history":
                    c["history"] = []
                if fails(c):
                    cur = c
        if cur.get("history") and runs < budget:
            c = copy.deepcopy(cur)
            c["history"] = []
            if fails(c):
                cur = c
        # halve the history while the mismatch persists
        while len(cur.get("history") or []) > 1 and runs < budget:
            h = cur["history"]
            for part in (h[len(h) // 2:], h[: len(h) // 2]):
                c = copy.deepcopy(cur)
                c["history"] = part
                if fails(c):
                    cur = c
                    break
            else:
                break
    else:
        steps = [("history", []), ("nasty_history", False), ("siblings", "none"), ("unibattery", None), ("mode", "seq"), ("jumps", []), ("epoch", E0), ("shuffle_dirs", False), ("cwd", "proj0"), ("gc", "default")]
        for k, simple in steps:
            if cur["var"].get(k) != simple and runs < budget:
                c = copy.deepcopy(cur)
                c["var"][k] = simple
                if k == "mode":
                    c["var"]["tape"] = {"values": []}
                if fails(c):
                    cur = c
    # shrink the document line by line
    key = "calls"
    if cur["kind"] != "grid" and (not cur["var"]["probes"] or cur["var"]["mode"] == "threads"):
        cur["minimise_runs"] = runs
        return cur
    call = cur["calls"][0] if cur["kind"] == "grid" else cur["calls"][str(cur["var"]["probes"][0])]
    text = call.get("text") or ""
    lines = text.split("\n")
    i = 0
    while i < len(lines) and runs < budget and len(lines) > 3:
        cand = lines[:i] + lines[i + 1:]
        c = copy.deepcopy(cur)
        tgt = c["calls"][0] if c["kind"] == "grid" else c["calls"][str(c["var"]["probes"][0])]
        tgt["text"] = "\n".join(cand)
        if fails(c):
            cur, lines = c, cand
        else:
            i += 1
    cur["minimise_runs"] = runs
    return cur


def determinism_digests(n: int, seed: int) -> list:
    from . import runner

    global POOL
    make_workspace()
    c06_calls.import_everything()
    POOL = make_pool(seed, 120)
    n = min(n, 60)
    us = [{"kind": "det", "lo": i, "hi": min(i + 5, n), "vseed": seed} for i in range(0, n, 5)]
    try:
        stats, viols, errors, done = runner.run_units("sim.c06", us, progress=False)
    finally:
        cleanup_workspace()
    if errors:
        raise RuntimeError(errors[0])
    got = dict(stats.samples.get("det", []))
    return [got.get(str(i)) for i in range(n)]


ASSUMPTIONS = [
    "golden = the same call executed in a pristine fork (package imported, no call served) with cwd=proj0, PYTHONHASHSEED=0, simulated clock at a fixed epoch",
    "masked before comparison: routing_log[].timestamp (exempted by the property) and the per-run sandbox root; nothing else",
    "every configuration sees byte-identical schema texts (project directories hold identical copies; calls naming a generated schema are not run with cwd=/ or an empty directory, where that schema legitimately does not exist)",
    "locales limited to those installed here: unset, C, C.UTF-8, POSIX (en_US.UTF-8 is 'when present' in the property and is absent); PYTHONUTF8=0 with LC_ALL=C is outside the stated set",
    "thread interleavings are explored at source-line granularity inside the repository's files (sys.settrace), one thread running at a time; C-level atomicity inside a single bytecode is not subdivided",
    "a clock read the seam does not own is not masked away: it reads real time and shows up as a mismatch",
]
COMPONENTS = {
    "real": ["ValidateTool/WriteTool/EjectTool/CompileGrammarTool.execute (shared instances, as in the server)",
             "lexer, parser, emitter, validator, repair, projector, sealer, GBNF compiler, schema loader, routing", "click CLI in-process inside the fresh interpreters",
             "CPython hash randomisation, locale machinery, real fork/exec"],
    "stub": ["wall clock (SimClock bound into the repository's modules)", "asyncio event loop (SimLoop)", "thread scheduling (baton + settrace)",
             "directory enumeration order (tape-shuffled scandir/listdir)", "MCP dispatcher/transport (await tool.execute; json.dumps)"],
}


def main(tier: str, seed: int, args) -> int:
    from . import runner

    global POOL
    t0 = time.time()
    make_workspace()
    try:
        c06_calls.import_everything()
        POOL = make_pool(seed, 300 if tier == "quick" else 3000)
        us = units(tier, seed)
        if args.units:
            us = us[: args.units]
        stats, viols, errors, done = runner.run_units("sim.c06", us, wall_cap=600 if tier == "quick" else 3300)
        wall = time.time() - t0
        c = stats.c
        coverage = {
            "evaluations": c.get("evaluations", 0),
            "distinct_nontrivial": len(stats.sets.get("calls", ())),
            "rule": "one evaluation = one call executed under a non-golden configuration/variation and compared byte-for-byte with its pristine "
                    "golden result; distinct_nontrivial = number of DISTINCT call specs (api+arguments+document) that were compared under at "
                    "least one configuration differing from golden (every grid interpreter differs in >=1 of hash seed/cwd/locale/TZ/umask/"
                    "epoch/history; variation runs counted separately as nontrivial_runs when >=2 dimensions differ)",
            "samples": [{"api": x["api"], "schema": x.get("schema"), "doc_kind": x.get("doc_kind"), "args": x.get("args"),
                         "text_head": (x.get("text") or "")[:160]} for x in POOL[:3]],
            "units_done": done, "units_planned": len(us), "pool_size": len(POOL),
            "evaluations_per_hour": int(c.get("evaluations", 0) / wall * 3600) if wall else 0,
            "fresh_interpreters": c.get("interpreters", 0), "grid_evaluations": c.get("grid_evaluations", 0),
            "distinct_configurations": len(stats.sets.get("configs", ())),
            "config_values_used": {k[4:]: dict(v) for k, v in stats.groups.items() if k.startswith("cfg_")},
            "worker_encodings_seen": dict(stats.groups.get("worker_encoding", {})),
            "state_battery_ordered_pairs": {"calls": len(c06_calls.state_battery()), "pairs_in_space": len(c06_calls.state_battery()) ** 2,
                                            "pairs_run": c.get("battery_pairs", 0),
                                            "complete": c.get("battery_pairs", 0) == len(c06_calls.state_battery()) ** 2},
            "variation_runs": c.get("var_runs", 0), "variation_evaluations": c.get("var_evaluations", 0),
            "variation_runs_with_2plus_dims": c.get("nontrivial_runs", 0), "variation_modes": dict(stats.groups.get("var_modes", {})),
            "variation_dims": dict(stats.groups.get("var_dims", {})), "distinct_variation_shapes": len(stats.sets.get("var_shapes", ())),
            "history_calls_served": c.get("history_calls_served", 0),
            "asyncio_loop_steps": c.get("loop_steps", 0), "asyncio_schedule_choices": c.get("loop_choices", 0),
            "virtual_seconds_advanced": c.get("virtual_seconds", 0),
            "thread_line_events": c.get("line_events", 0), "thread_preemptions": c.get("switches", 0),
            "thread_shared_state_line_hits": c.get("focus_hits", 0), "thread_writes_through_shared_objects": c.get("shared_obj_hits", 0),
            "thread_real_lock_stalls_recovered": c.get("lock_recoveries", 0), "shared_state_lines_in_package": len(compute_shared_lines()),
            "simulated_clock_reads": c.get("clock_reads", 0),
            "apis": dict(sorted(stats.groups.get("apis", {}).items())),
            "fault_counts_fired": {"note": "no fault is part of this property; the injected 'faults' are configuration/schedule/clock variations",
                                   "clock_jumps_and_epochs": c.get("clock_reads", 0), "thread_preemptions": c.get("switches", 0),
                                   "task_reorderings": c.get("loop_choices", 0)},
            "simulated_time": "virtual seconds advanced by SimLoop timers (client delays) are reported; no code in the repository has a deadline, "
                              "so yield points / line events are the meaningful measure",
            "exhaustive": False, "components": COMPONENTS,
        }
        return runner.finish(PROP, sys.modules[__name__], tier, seed, stats, viols, errors, wall, coverage, ASSUMPTIONS)
    finally:
        cleanup_workspace()
