"""The choice tape.

Every nondeterministic decision of a simulated run (scenario knobs, which actor
runs next, whether and how an operation fails, clock values) is obtained with
``tape.choose(n, tag)``.  A tape is either *generative* (a PRNG seeded with one
integer) or *replaying* (a recorded list of values; missing entries read as 0,
which by convention everywhere means "default / no fault / keep running the
same actor").  The values actually consumed are recorded, so any run can be
replayed from ``tape.values`` alone.

Nothing else in the simulator may draw randomness or read a real clock.
"""

from __future__ import annotations

import hashlib
import random


class Tape:
    __slots__ = ("seed", "_rng", "_replay", "_pos", "values", "tags", "keep_tags", "ns")

    def __init__(self, seed: int | None = None, values: list[int] | None = None, keep_tags: bool = False):
        self.seed = seed
        self._rng = random.Random(seed) if values is None else None
        self._replay = list(values) if values is not None else None
        self._pos = 0
        self.values: list[int] = []
        self.ns: list[int] = []  # number of options at each draw (for systematic enumeration of schedules)
        self.tags: list[str] = []
        self.keep_tags = keep_tags

    def choose(self, n: int, tag: str = "") -> int:
        """Return an integer in [0, n)."""
        if n <= 1:
            v = 0
        elif self._replay is not None:
            v = self._replay[self._pos] if self._pos < len(self._replay) else 0
            if v >= n or v < 0:
                v = v % n
        else:
            v = self._rng.randrange(n)
        self._pos += 1
        self.values.append(v)
        self.ns.append(n)
        if self.keep_tags:
            self.tags.append(tag)
        return v

    def flag(self, permille: int, tag: str = "") -> bool:
        """True with probability permille/1000; a replayed 0 is always False."""
        if permille <= 0:
            # still consume a slot so that tapes stay aligned when a knob changes
            self.choose(1000, tag)
            return False
        return self.choose(1000, tag) >= 1000 - permille

    def pick(self, seq, tag: str = ""):
        return seq[self.choose(len(seq), tag)]

    def weighted(self, pairs, tag: str = ""):
        """pairs: [(item, weight)], first item is the default (value 0)."""
        total = sum(w for _, w in pairs)
        v = self.choose(total, tag)
        acc = 0
        for item, w in pairs:
            acc += w
            if v < acc:
                return item
        return pairs[-1][0]

    def shuffle(self, seq: list, tag: str = "") -> list:
        out = list(seq)
        for i in range(len(out) - 1, 0, -1):
            j = i - self.choose(i + 1, tag)  # value 0 keeps the element in place
            out[i], out[j] = out[j], out[i]
        return out


def derive_seed(verif_seed: int, prop: str, stream: str, index: int) -> int:
    """Per-run seed; independent of worker count and of scheduling of the batch."""
    h = hashlib.sha256(f"{verif_seed}:{prop}:{stream}:{index}".encode()).digest()
    return int.from_bytes(h[:8], "big")
