"""Command-line entry: ./check <ID> [--tier quick|thorough] [--replay file] | selftest ..."""

from __future__ import annotations

import argparse
import importlib
import json
import os
import sys
import time

CHECKS = {"C16": "sim.c16", "C17": "sim.c17", "C19": "sim.c19", "C06": "sim.c06"}


def _reexec_fixed_hashseed():
    # C06's golden runs are forks of THIS interpreter: its hash seed is part of the golden configuration and must be 0
    force = len(sys.argv) > 1 and sys.argv[1] == "C06" and os.environ.get("PYTHONHASHSEED") != "0"
    if os.environ.get("PYTHONHASHSEED") is None or force:
        env = dict(os.environ)
        env["PYTHONHASHSEED"] = "0"
        env.pop("COVERAGE_PROCESS_START", None)
        env.pop("COVERAGE_PROCESS_CONFIG", None)
        os.execve(sys.executable, [sys.executable] + sys.argv, env)


def main(argv) -> int:
    _reexec_fixed_hashseed()
    ap = argparse.ArgumentParser(prog="check")
    ap.add_argument("id")
    ap.add_argument("rest", nargs="*")
    ap.add_argument("--tier", default=os.environ.get("VERIF_TIER", "quick"), choices=["quick", "thorough"])
    ap.add_argument("--replay")
    ap.add_argument("--workers", type=int, default=0)
    ap.add_argument("--units", type=int, default=0, help="debug: cap on number of work units")
    args = ap.parse_args(argv)
    if args.workers:
        os.environ["VERIF_WORKERS"] = str(args.workers)
    seed = int(os.environ.get("VERIF_SEED", "0") or 0)

    from .common import assert_repo_code

    try:
        assert_repo_code()
    except Exception as e:
        print(f"HARNESS-ERROR: {e}", file=sys.stderr)
        return 2

    if args.id == "selftest":
        from . import selftest

        return selftest.main(args.rest, args.tier, seed)

    if args.id not in CHECKS:
        print(f"unknown check {args.id}; known: {sorted(CHECKS)}", file=sys.stderr)
        return 2
    mod = importlib.import_module(CHECKS[args.id])

    scratch = _make_scratch_base()
    try:
        if args.replay:
            return replay(mod, args.replay)
        try:
            return mod.main(args.tier, seed, args)
        except Exception as e:
            import traceback

            traceback.print_exc()
            print(f"HARNESS-ERROR property={args.id}: {type(e).__name__}: {e}", file=sys.stderr)
            return 2
    finally:
        import shutil

        shutil.rmtree(scratch, ignore_errors=True)


def _make_scratch_base() -> str:
    """Everything this invocation (and its worker processes) creates on disk lives here and is removed at the end."""
    top = "/dev/shm" if os.path.isdir("/dev/shm") and os.access("/dev/shm", os.W_OK) else None
    if top is None:
        import tempfile

        top = tempfile.gettempdir()
    d = os.path.join(top, f"ovrun-{os.getpid()}")
    os.makedirs(d, exist_ok=True)
    os.environ["VERIF_SCRATCH_BASE"] = d
    return d


def replay(mod, path: str) -> int:
    with open(path, encoding="utf-8") as f:
        body = json.load(f)
    case = body["case"]
    from . import seam

    seam.install()
    seam.install_audit()
    res = mod.run_case(case)
    want_sig = body.get("signature")
    hit = [v for v in res["violations"] if want_sig is None or v["signature"] == want_sig]
    print(f"replay {path}: {len(res['violations'])} violation(s), log digest {res['digest']}")
    for ev in res["log"][-60:]:
        print("   ", ev)
    if hit:
        if body.get("log_digest") in (None, res["digest"]):
            print("REPLAY-DIGEST-MATCH")
        else:
            print(f"REPLAY-DIGEST-DIFFERS recorded={body.get('log_digest')} now={res['digest']}")
        print(f"VIOLATION property={mod.PROP} replay={path}")
        print(f"  clause={hit[0]['clause']} signature={hit[0]['signature']}")
        print(f"  {hit[0]['detail'][:2000]}")
        return 1
    print("not reproduced on this tree")
    return 0
