"""Storage seam, simulated processes ("actors") and the baton scheduler.

Real file system, simulated decisions: every file operation issued by an actor
thread on a path below the run's root (or on a descriptor opened there) is a
*yield point*.  At a yield point the scheduler decides -- from the tape and the
explicit fault plan only -- which actor performs its pending operation next and
whether that operation is performed, fails with an errno, is cut short, or is
the moment at which the actor is killed / interrupted / the machine loses power.

Exactly one thread runs at any time (baton passing on semaphores), so a run is a
pure function of (code, scenario, fault plan, tape).
"""

from __future__ import annotations

import builtins
import errno as _errno
import io
import locale
import os
import stat as _stat
import sys
import tempfile
import threading
from collections import Counter
from contextlib import contextmanager

from .tape import Tape


class SimKilled(BaseException):
    """The simulated process was killed (SIGKILL / power loss)."""


class SimInterrupt(BaseException):
    """Asynchronous exception delivered at an operation (KeyboardInterrupt analogue)."""


class HarnessError(Exception):
    """The simulator itself is broken or was bypassed; never reported as a violation."""


# --------------------------------------------------------------------------- #
# operation classes and the faults each admits
# --------------------------------------------------------------------------- #

OP_CLASS = {
    "stat": "lookup", "lstat": "lookup", "access": "lookup", "readlink": "lookup",
    "scandir": "lookup", "listdir": "lookup",
    "open_r": "open_read", "read": "read",
    "mkdir": "mkdir",
    "open_c": "create",
    "fchmod": "chmod", "chmod": "chmod",
    "write": "write", "ftruncate": "write", "truncate": "write",
    "fsync": "sync", "fdatasync": "sync",
    "close": "close",
    "replace": "rename", "rename": "rename", "link": "rename", "symlink": "rename",
    "unlink": "unlink", "remove": "unlink", "rmdir": "unlink",
    "fstat": "fdmeta", "lseek": "fdmeta", "utime": "chmod",
    "flock": "lock",
    "pwrite": "write", "writev": "write", "sendfile": "write", "copy_file_range": "write", "posix_fallocate": "write",
    "pread": "read", "readv": "read",
}

# C16's quantifier names five failures for EVERY call boundary (ENOSPC, EACCES, EIO, EINTR, EROFS); they are admissible
# everywhere, whatever a particular file system would realistically return.  Class-specific extras follow.
CORE_ERRNOS = ["ENOSPC", "EACCES", "EIO", "EINTR", "EROFS"]
CLASS_ERRNOS = {
    "lookup": CORE_ERRNOS + [],
    "open_read": CORE_ERRNOS + ["EMFILE", "ENOENT"],
    "read": CORE_ERRNOS + [],
    "mkdir": CORE_ERRNOS + [],
    "create": CORE_ERRNOS + ["EMFILE"],
    "chmod": CORE_ERRNOS + ["EPERM"],
    "write": CORE_ERRNOS + ["EDQUOT"],
    "sync": CORE_ERRNOS + [],
    "close": CORE_ERRNOS + [],
    "rename": CORE_ERRNOS + ["EBUSY"],
    "unlink": CORE_ERRNOS + ["EBUSY"],
    "fdmeta": [],
    "lock": CORE_ERRNOS + ["ENOLCK"],
}

MUTATING_CLASSES = {"mkdir", "create", "chmod", "write", "rename", "unlink"}
CRASH_KINDS = ("kill", "interrupt", "powerloss")


def admissible(opname: str) -> list[str]:
    return CLASS_ERRNOS.get(OP_CLASS.get(opname, ""), [])


# --------------------------------------------------------------------------- #
# process-wide state of the interposer
# --------------------------------------------------------------------------- #

_tls = threading.local()
_real: dict[str, object] = {}
_installed = False
_audit_installed = False

_OS_NAMES = [
    "stat", "lstat", "access", "readlink", "scandir", "listdir", "open", "close", "read", "write",
    "lseek", "fsync", "fdatasync", "fstat", "fchmod", "chmod", "truncate", "ftruncate", "utime",
    "mkdir", "rmdir", "replace", "rename", "unlink", "remove", "link", "symlink",
    "pwrite", "writev", "sendfile", "copy_file_range", "posix_fallocate", "pread", "readv",
]


def current_actor():
    a = getattr(_tls, "actor", None)
    if a is None or getattr(_tls, "harness", 0):
        return None
    return a


@contextmanager
def passthrough():
    """Harness code inside an actor thread: operations are neither scheduled nor recorded."""
    _tls.harness = getattr(_tls, "harness", 0) + 1
    try:
        yield
    finally:
        _tls.harness -= 1


def real(name: str):
    if not _installed:
        install()
    return _real[name]


class _RealCallError(Exception):
    """Wrapper for a non-OSError exception raised by the REAL function (the caller passed bad arguments): it belongs to the
    code under test and is re-raised unchanged by _guard."""

    def __init__(self, inner):
        super().__init__(repr(inner))
        self.inner = inner


def _call_real(fn, *args, **kw):
    try:
        return fn(*args, **kw)
    except (OSError, SimKilled, SimInterrupt, HarnessError):
        raise
    except Exception as e:  # noqa: BLE001
        raise _RealCallError(e) from None


class _ApiTypeError(TypeError):
    """TypeError that the file API itself is specified to raise (e.g. bytes written to a text file)."""


_ApiTypeError.__name__ = _ApiTypeError.__qualname__ = "TypeError"  # code that prints type(e).__name__ sees what CPython shows
_ApiTypeError.__module__ = "builtins"


def _guard(fn):
    """A bug INSIDE the simulator must never look like an ordinary failure of the code under test: anything other than the
    exceptions the seam raises on purpose marks the run as aborted (harness error at the end of the run)."""
    import functools

    @functools.wraps(fn)
    def wrapper(self, *args, **kw):
        try:
            return fn(self, *args, **kw)
        except (SimKilled, SimInterrupt, OSError, HarnessError, ValueError, UnicodeError, _ApiTypeError):
            raise
        except _RealCallError as w:
            raise w.inner from None
        except Exception as e:  # noqa: BLE001
            sim = self if isinstance(self, Simulation) else getattr(self, "_sim", None)
            if sim is not None:
                import traceback

                sim.aborting = sim.aborting or f"internal error in the simulator: {type(e).__name__}: {e} :: {traceback.format_exc()[-600:]}"
            raise HarnessError(f"internal error in the simulator: {type(e).__name__}: {e}") from e

    return wrapper


class Op:
    __slots__ = ("actor", "idx", "name", "path", "path2", "fd", "detail", "outcome", "gidx")

    def __init__(self, actor, idx, name, path=None, path2=None, fd=None, detail=None):
        self.actor = actor
        self.idx = idx
        self.name = name
        self.path = path
        self.path2 = path2
        self.fd = fd
        self.detail = detail
        self.outcome = None
        self.gidx = -1

    @property
    def cls(self):
        return OP_CLASS.get(self.name, "other")

    def brief(self, root=None):
        def rel(p):
            if p is None:
                return None
            if root and (p == root or p.startswith(root + "/")):
                return "<R>" + p[len(root):]
            return p
        return [self.actor, self.idx, self.name, rel(self.path), rel(self.path2), self.detail, self.outcome]


class Actor:
    def __init__(self, sim, aid, name, fn, faultable=True):
        self.sim = sim
        self.id = aid
        self.name = name
        self.fn = fn
        self.faultable = faultable
        self.sem = threading.Semaphore(0)
        self.thread = None
        self.pending: Op | None = None
        self.started = False
        self.done = False
        self.dead = False  # killed: every further operation is refused
        self.blocked_on = None
        self.op_count = 0
        self.fds: dict[int, dict] = {}
        self.dirfds: dict[int, str] = {}  # descriptors of directories OUTSIDE the root (openat-style walks start at "/")
        self.outcome = None  # returned | raised | killed | interrupted
        self.result = None
        self.exc = None
        self.ops: list[Op] = []
        self.faults_fired = 0
        self.kill_snapshot = None
        self.expected_audit = None
        self.audit: list = []
        self.nameseq = None

    def __repr__(self):
        return f"<Actor {self.id} {self.name} {self.outcome}>"


class Knobs:
    """Per-run tuning knobs (chosen from the tape by the scenario generator)."""

    def __init__(self, wchunk=1 << 16, userbuf=8192, rchunk=1 << 16, tmp_shared=False, shuffle_dirs=False,
                 sched="uniform", switch_permille=300, step_cap=5000):
        self.wchunk = wchunk
        self.userbuf = userbuf
        self.rchunk = rchunk
        self.tmp_shared = tmp_shared
        self.shuffle_dirs = shuffle_dirs
        self.sched = sched
        self.switch_permille = switch_permille
        self.step_cap = step_cap

    def as_dict(self):
        return dict(self.__dict__)


PARK_TIMEOUT = 120.0


class Simulation:
    """One simulated run over one sandbox root."""

    def __init__(self, root: str, tape: Tape, knobs: Knobs | None = None, faults: list[dict] | None = None,
                 fault_cfg: dict | None = None, record_unscoped: bool = False, focus_paths: tuple = (),
                 ftape: Tape | None = None):
        self.root = root.rstrip("/")
        self.root_real = _real_realpath(self.root)
        self._has_links = False  # set by checks whose layouts contain symlinks (C19)
        self.tape = tape  # scheduling decisions
        self.ftape = ftape or tape  # fault decisions (separate so a fault plan can be made explicit)
        self.fired: list[dict] = []
        self.knobs = knobs or Knobs()
        self.faults = [dict(f) for f in (faults or [])]
        self.fault_cfg = fault_cfg  # {"rate": permille, "boost": permille, "max": n, "kinds": [...], "window": n}
        self.record_unscoped = record_unscoped
        self.focus_paths = tuple(focus_paths)
        self.actors: list[Actor] = []
        self.events: list[Op] = []
        self.unscoped: list = []
        self.main_sem = threading.Semaphore(0)
        self.steps = 0
        self.aborting = None
        self.fault_counts: Counter = Counter()
        self.probes: Counter = Counter()
        self.sticky: list[dict] = []
        self.fdinfo: dict[int, dict] = {}
        self.before_op = None  # callbacks(sim, actor, op), run in passthrough mode
        self.after_op = None
        self.bypass: list = []
        self.powerlost = False
        self.crash_op: Op | None = None
        self.deadlock = False
        self.locks: dict = {}  # flock: inode -> (actor id, fd)   (owned by the open file description)
        self.plocks: dict = {}  # POSIX lockf: inode -> actor id   (owned by the process)
        self.boost_left = 0
        self.total_faults = 0
        self.tmp_counter = 0
        self.fslog: list = []  # durability model input, see fsmodel
        self.ino_state: dict = {}
        self.step_capped = False
        self.unlink_faulted: set = set()
        self.entropy_counter = 0
        self.outside_mutations: list = []
        self.claims_outside = False  # set by checks that judge outside_mutations themselves
        self.vtime = 0.0  # simulated seconds: the only clock code under test can read through `time`
        self.sleeps = 0

    # ------------------------------------------------------------------ actors
    def add_actor(self, name, fn, faultable=True) -> Actor:
        a = Actor(self, len(self.actors), name, fn, faultable)
        self.actors.append(a)
        return a

    def in_scope(self, path: str) -> bool:
        return path == self.root or path.startswith(self.root + "/")

    def run(self):
        install()
        if not self.actors:
            return
        _ACTIVE_SIMS.append(self)
        import random as _random

        rstate = _random.getstate()
        _random.seed(0xC0FFEE)  # the module-level PRNG is part of the run's state too
        try:
            self._run()
        finally:
            _random.setstate(rstate)
            _ACTIVE_SIMS.remove(self)
        if FOREIGN_BYPASS:
            got = list(FOREIGN_BYPASS)
            FOREIGN_BYPASS.clear()
            raise HarnessError(f"file operations on the sandbox from a helper thread the seam does not own: {got[:3]}")
        if self.outside_mutations and not self.claims_outside:
            raise HarnessError(f"code under test tried to change files outside the sandbox (refused): {self.outside_mutations[:3]}")

    def _run(self):
        for a in self.actors:
            a.pending = Op(a.id, -1, "start")
        if len(self.actors) == 1:
            self._run_inline(self.actors[0])
        else:
            for a in self.actors:
                a.thread = threading.Thread(target=self._thread_main, args=(a,), daemon=True,
                                            name=f"actor-{a.id}")
                a.thread.start()
            first = self._pick(None)
            first.sem.release()
            if not self.main_sem.acquire(timeout=PARK_TIMEOUT * 4):
                self.aborting = "main timed out"
                for a in self.actors:
                    a.sem.release()
                raise HarnessError("simulation did not finish (main wait timed out)")
            for a in self.actors:
                a.thread.join(timeout=PARK_TIMEOUT)
                if a.thread.is_alive():
                    raise HarnessError(f"actor thread {a.id} did not exit")
        self._close_leaked()
        if self.aborting and not (self.step_capped or self.deadlock):
            raise HarnessError(self.aborting)

    def _close_leaked(self):
        for a in self.actors:
            for fd in list(a.fds):
                try:
                    _real["close"](fd)
                except OSError:
                    pass
                a.fds.pop(fd, None)
                self.fdinfo.pop(fd, None)

    def _body(self, a: Actor):
        _tls.actor = a
        _tls.harness = 0
        a.started = True
        try:
            a.result = a.fn()
            a.outcome = "returned"
        except SimKilled:
            a.outcome = "killed"
        except SimInterrupt as e:
            a.outcome = "interrupted"
            a.exc = e
        except SystemExit as e:
            a.outcome = "returned"
            a.result = e
        except HarnessError as e:
            a.outcome = "harness"
            a.exc = e
            self.aborting = self.aborting or f"harness error in actor {a.id}: {e!r}"
        except BaseException as e:  # an Exception escaping the call under test
            a.outcome = "raised"
            a.exc = e
        finally:
            _tls.actor = None
            a.done = True
            # a process that ended releases its descriptors (and with them its locks)
            for fd in list(a.fds):
                try:
                    _real["close"](fd)
                except OSError:
                    pass
                self._drop_fd(a, fd)

    def _run_inline(self, a: Actor):
        self._body(a)

    def _thread_main(self, a: Actor):
        if not a.sem.acquire(timeout=PARK_TIMEOUT * 4):
            return
        if self.aborting:
            a.done = True
            a.outcome = "aborted"
            self._finished(a)
            return
        try:
            self._body(a)
        finally:
            self._finished(a)

    def _finished(self, a: Actor):
        nxt = self._pick(None)
        if nxt is None:
            self.main_sem.release()
        else:
            nxt.sem.release()

    # --------------------------------------------------------------- scheduling
    def _runnable(self):
        out = []
        for a in self.actors:
            if a.done:
                continue
            if a.blocked_on is not None and not self.aborting:
                if isinstance(a.blocked_on, tuple) and a.blocked_on[0] == "p":
                    holder = self.plocks.get(a.blocked_on[1])
                    if holder is not None and holder != a.id:
                        continue
                else:
                    holder = self.locks.get(a.blocked_on)
                    if holder is not None:
                        continue
                a.blocked_on = None
            out.append(a)
        return out

    def _pick(self, current: Actor | None) -> Actor | None:
        run = self._runnable()
        if not run:
            if any(not a.done for a in self.actors):
                # only blocked actors are left: deadlock.  Abort them.
                self.deadlock = True
                self.aborting = self.aborting or "deadlock: all remaining actors blocked on locks"
                for a in self.actors:
                    if not a.done:
                        a.blocked_on = None
                        return a
            return None
        if self.aborting:
            return run[0]
        if current is not None and current in run:
            others = [a for a in run if a is not current]
            if not others:
                return current
            if self.knobs.sched == "enum":
                # systematic exploration: a scheduling choice exists only before the coarse 'protocol steps' on the focus path
                op = current.pending
                if op is None or not self._is_enum_point(op):
                    return current
                return ([current] + others)[self.tape.choose(len(others) + 1, "enum.sched")]
            if self._want_switch(current):
                return others[self.tape.choose(len(others), "sched.to")]
            return current
        if len(run) == 1:
            return run[0]
        return run[self.tape.choose(len(run), "sched.pick")]

    def _want_switch(self, current: Actor) -> bool:
        k = self.knobs
        if k.sched == "enum":
            raise HarnessError("enum policy does not use _want_switch")
        if k.sched == "focus":
            op = current.pending
            if op is None or not self._is_focus(op):
                return False
            return self.tape.flag(max(k.switch_permille, 500), "sched.sw")
        return self.tape.flag(k.switch_permille, "sched.sw")

    def _is_enum_point(self, op: Op) -> bool:
        if op.name in ("flock", "sleep"):
            return True
        if op.name in ("replace", "rename") and op.path2 in self.focus_paths:
            return True
        # opening the target (for reading: a protocol step of a writer; for writing in place: an external editor)
        return op.name in ("open_r", "open_c", "utime") and op.path in self.focus_paths

    def _is_focus(self, op: Op) -> bool:
        if not self.focus_paths or op.name in ("flock", "sleep"):
            return True
        return op.path in self.focus_paths or op.path2 in self.focus_paths or op.name in ("replace", "rename")

    def _park(self, a: Actor):
        if not a.sem.acquire(timeout=PARK_TIMEOUT):
            self.aborting = self.aborting or f"actor {a.id} parked too long"
            raise HarnessError("park timeout")

    def yield_point(self, a: Actor, op: Op):
        """Called by actor ``a`` before performing ``op``; returns the directive."""
        if a.dead:
            raise SimKilled()
        if self.aborting:
            a.dead = True
            raise SimKilled()
        self.steps += 1
        if self.steps > self.knobs.step_cap:
            self.step_capped = True
            self.aborting = "step cap"
            a.dead = True
            raise SimKilled()
        a.pending = op
        if len(self.actors) > 1:
            nxt = self._pick(a)
            if nxt is not a:
                nxt.sem.release()
                self._park(a)
                if self.aborting or a.dead:
                    a.dead = True
                    raise SimKilled()
        op.gidx = len(self.events)
        self.events.append(op)
        a.ops.append(op)
        return self._directive(a, op)

    # -------------------------------------------------------------------- faults
    def _directive(self, a: Actor, op: Op):
        # 1. explicit plan
        for f in self.faults:
            if f.get("actor", 0) == a.id and f["at"] == op.idx and not f.get("_used"):
                kind = f["kind"]
                if (kind == "errno" and f["errno"] not in admissible(op.name) and not f.get("force")) or (kind == "short" and op.name != "write"):
                    f["_used"] = True
                    self.probes["planned_fault_not_admissible"] += 1
                    continue
                f["_used"] = True
                if f.get("sticky") == "same" and kind == "errno":
                    # THIS operation on THIS path keeps failing (e.g. every read of one file) while everything else works
                    self.sticky.append({"errno": f["errno"], "actor": a.id, "name": op.name, "path": op.path})
                elif f.get("sticky") and kind == "errno":
                    self.sticky.append({"errno": f["errno"], "actor": a.id})
                return self._fire(a, op, kind, f.get("errno"), bool(f.get("sticky", False)))
        # 2. sticky conditions established earlier
        for s in self.sticky:
            if "name" in s:
                if s["name"] == op.name and s["path"] == op.path:
                    return self._fire(a, op, "errno", s["errno"], True, count=False)
                continue
            if s["errno"] in admissible(op.name):
                return self._fire(a, op, "errno", s["errno"], True, count=False)
        # 3. random faults from the tape
        cfg = self.fault_cfg
        if cfg and a.faultable and op.name != "start" and self.total_faults < cfg.get("max", 2):
            rate = cfg.get("rate", 0)
            if self.boost_left > 0:
                rate = cfg.get("boost", rate)
                self.boost_left -= 1
            if self.ftape.flag(rate, "fault?"):
                cands = []
                for k in cfg.get("kinds", []):
                    if k in CRASH_KINDS:
                        cands.append((k, None))
                    elif k == "short":
                        if op.name == "write":
                            cands.append(("short", None))
                    elif k in admissible(op.name):
                        cands.append(("errno", k))
                if cands:
                    kind, en = cands[self.ftape.choose(len(cands), "fault.kind")]
                    sticky = False
                    if kind == "errno" and cfg.get("sticky_permille", 0):
                        sticky = self.ftape.flag(cfg["sticky_permille"], "fault.sticky")
                        if sticky:
                            self.sticky.append({"errno": en, "actor": a.id})
                    return self._fire(a, op, kind, en, sticky)
        return ("proceed", None)

    def _fire(self, a, op, kind, en, sticky, count=True):
        if count:
            self.total_faults += 1
            a.faults_fired += 1
            if self.fault_cfg:
                self.boost_left = self.fault_cfg.get("window", 8)
        label = kind if kind != "errno" else en
        if count:
            self.fired.append({"actor": a.id, "at": op.idx, "kind": kind, "errno": en, "sticky": bool(sticky),
                               "cls": op.cls, "op": op.name})
        self.fault_counts[f"{label}{'*' if sticky else ''}@{op.cls}"] += 1
        if kind == "errno" and op.cls == "unlink":
            self.unlink_faulted.add(op.path)
        return (kind, en)

    # ------------------------------------------------------------- crash helpers
    def crash_actor(self, a: Actor, op: Op, kind: str):
        a.dead = True
        self.crash_op = op
        op.outcome = kind
        if kind == "powerloss":
            self.powerlost = True
            for b in self.actors:
                b.dead = True
        # a dead process's descriptors are closed by the kernel, nothing is flushed
        victims = self.actors if kind == "powerloss" else [a]
        for b in victims:
            for ino, holder in list(self.plocks.items()):
                if holder == b.id:
                    del self.plocks[ino]
            for fd in list(b.fds):
                try:
                    _real["close"](fd)
                except OSError:
                    pass
                self._drop_fd(b, fd)

    def _drop_fd(self, a: Actor, fd: int):
        info = a.fds.pop(fd, None)
        self.fdinfo.pop(fd, None)
        for ino, holder in list(self.locks.items()):
            if holder == (a.id, fd):
                del self.locks[ino]
        # POSIX semantics: closing ANY descriptor of the file drops the process's record locks on it
        if info is not None and self.plocks.get(info.get("ino")) == a.id:
            del self.plocks[info["ino"]]

    # ------------------------------------------------------------------ syscalls
    def abspath(self, p) -> str:
        p = os.fspath(p)
        if isinstance(p, bytes):
            p = os.fsdecode(p)
        if not p.startswith("/"):
            p = _real_getcwd() + "/" + p
        return os.path.normpath(p) if ("/./" in p or p.endswith("/.") or "//" in p or p.endswith("/")) else p

    @_guard
    def syscall(self, a: Actor, name: str, args, kw):
        """Interposed os.<name> issued by actor ``a``."""
        fn = _real[name]
        path = path2 = fd = None
        detail = None
        first = args[0] if args else None
        opname = name
        if name in ("sendfile", "copy_file_range"):
            # data lands in the OUT descriptor: os.sendfile(out_fd, in_fd, ...), os.copy_file_range(src, dst, ...)
            first = args[0] if name == "sendfile" else args[1]
        if name in ("close", "read", "write", "lseek", "fsync", "fdatasync", "fstat", "fchmod", "ftruncate", "pwrite", "writev", "sendfile",
                    "copy_file_range", "posix_fallocate", "pread", "readv"):
            fd = first
            if fd not in a.fds:
                if a.dead:
                    raise SimKilled()
                if name == "close":
                    a.dirfds.pop(fd, None)
                return _call_real(fn, *args, **kw)
            path = a.fds[fd]["path"]
            if name == "write":
                detail = len(args[1])
            elif name == "fchmod":
                detail = oct(args[1]) if len(args) > 1 else oct(kw.get("mode", 0))
        else:
            if isinstance(first, int) and name in ("stat", "chmod", "truncate", "utime", "scandir", "listdir"):
                # fd-based variants
                fd = first
                if fd not in a.fds:
                    if a.dead:
                        raise SimKilled()
                    return _call_real(fn, *args, **kw)
                path = a.fds[fd]["path"]
            else:
                if first is None and name in ("scandir", "listdir"):
                    first = "."
                # openat-style calls: a relative name is resolved against a directory DESCRIPTOR the actor opened earlier
                def _at(p_, dfd):
                    if dfd is None:
                        return self.abspath(p_)
                    p_ = os.fspath(p_)
                    if isinstance(p_, bytes):
                        p_ = os.fsdecode(p_)
                    if p_.startswith("/"):
                        return p_
                    info_ = a.fds.get(dfd)
                    if info_ is None:
                        base_ = a.dirfds.get(dfd)
                        if base_ is None:
                            raise LookupError("dir_fd not opened through the seam")
                        return os.path.normpath(base_.rstrip("/") + "/" + p_) if p_ not in (".", "") else base_
                    return (info_["path"].rstrip("/") + "/" + p_) if p_ not in (".", "") else info_["path"]

                try:
                    path = _at(first, kw.get("dir_fd") if name not in ("replace", "rename", "link") else kw.get("src_dir_fd"))
                except TypeError:
                    return _call_real(fn, *args, **kw)
                except LookupError:
                    return _call_real(fn, *args, **kw)
                if name in ("replace", "rename", "link", "symlink"):
                    second = args[1] if len(args) > 1 else kw.get("dst")
                    try:
                        path2 = _at(second, kw.get("dst_dir_fd") if name != "symlink" else kw.get("dir_fd"))
                    except LookupError:
                        return _call_real(fn, *args, **kw)
                    if name == "symlink" and kw.get("dir_fd") is not None:
                        path = os.fspath(first)
                    if name == "symlink":
                        # symlink(src, dst): dst is the path created; src is just text
                        path, path2 = path2, os.fspath(first)
            scoped = self.in_scope(path) or (path2 is not None and name != "symlink" and self.in_scope(path2))
            if not scoped:
                if a.dead:
                    raise SimKilled()
                nm = name
                if name == "open":
                    fl = args[1] if len(args) > 1 else kw.get("flags", 0)
                    nm = "open:" + ("w" if fl & (os.O_WRONLY | os.O_RDWR | os.O_CREAT | os.O_TRUNC) else "r")
                if self.record_unscoped:
                    self.unscoped.append((a.id, nm, path, path2))
                self._jail(a, nm, path)
                res_ = _call_real(fn, *args, **kw)
                if name == "open" and isinstance(res_, int):
                    fl_ = args[1] if len(args) > 1 else kw.get("flags", 0)
                    if fl_ & (os.O_DIRECTORY | getattr(os, "O_PATH", 0)):
                        a.dirfds[res_] = path
                return res_
            if name == "open":
                flags = args[1] if len(args) > 1 else kw.get("flags", 0)
                detail = flags
                creat = flags & (os.O_CREAT | os.O_TRUNC) or (flags & os.O_ACCMODE) != os.O_RDONLY
                opname = "open_c" if creat else "open_r"
            if name == "stat" and kw.get("follow_symlinks") is False:
                opname = "lstat"

        if fd is None and OP_CLASS.get(opname) in MUTATING_CLASSES and ("/../" in path or path.endswith("/..") or self._has_links):
            # lexically inside the root is not enough: '..' (or a link the layout contains) may lead out of it
            try:
                real_parent = _real_realpath(os.path.dirname(path.rstrip("/")) or "/")
            except (OSError, ValueError):
                real_parent = None
            if real_parent is not None and not (real_parent == self.root_real or real_parent.startswith(self.root_real + "/")):
                self.outside_mutations.append((a.id, opname, path))
                raise PermissionError(_errno.EACCES, "simulator jail: write outside the sandbox refused", path)
        op = Op(a.id, a.op_count, opname, path, path2, fd, detail)
        a.op_count += 1
        kind, en = self.yield_point(a, op)

        if self.before_op is not None:
            with passthrough():
                self.before_op(self, a, op, kind)

        if kind == "realkill":
            # cross-validation mode (real child process): die for real, right here, before performing the operation
            import signal

            os.kill(_real["getpid"](), signal.SIGKILL)
        if kind in CRASH_KINDS:
            if kind == "interrupt":
                op.outcome = "interrupt"
                self.crash_op = op
                raise SimInterrupt(f"interrupt at {opname}")
            self.crash_actor(a, op, kind)
            if self.after_op is not None:
                with passthrough():
                    self.after_op(self, a, op)
            raise SimKilled()

        if kind == "errno":
            code = getattr(_errno, en)
            if name == "close":
                # as on Linux: the descriptor is gone even when close() reports an error
                try:
                    fn(fd)
                except OSError:
                    pass
                self._drop_fd(a, fd)
            if name == "write" and en in ("ENOSPC", "EDQUOT") and detail and detail > 1:
                # disk fills up in the middle of this chunk: some bytes land, then the error
                pass
            op.outcome = en
            if self.after_op is not None:
                with passthrough():
                    self.after_op(self, a, op)
            raise OSError(code, os.strerror(code), os.fspath(first) if not isinstance(first, int) else None)

        if kind == "short":
            data = args[1]
            n = max(1, len(data) // 2)
            args = (args[0], bytes(data[:n]))
            self.probes["short_write"] += 1

        # ---- perform the real operation
        pre = None
        if name == "open" and opname == "open_c":
            try:
                pre = _real["lstat"](path)
            except OSError:
                pre = None
        a.expected_audit = (name, path, path2)
        try:
            res = _call_real(fn, *args, **kw)
        except OSError as e:
            op.outcome = "!" + (_errno.errorcode.get(e.errno, str(e.errno)) if e.errno else "OSError")
            a.expected_audit = None
            if self.after_op is not None:
                with passthrough():
                    self.after_op(self, a, op)
            raise
        a.expected_audit = None
        op.outcome = "ok"
        self._effect(a, op, name, opname, args, kw, res, pre)
        if self.after_op is not None:
            with passthrough():
                self.after_op(self, a, op)
        if name in ("scandir", "listdir") and self.knobs.shuffle_dirs:
            return _shuffled_dir(self, name, res)
        return res

    # bookkeeping of successful operations (fd table + durability model)
    def _effect(self, a, op, name, opname, args, kw, res, pre):
        if name == "open":
            fd = res
            st = _real["fstat"](fd)
            ino = (st.st_dev, st.st_ino)
            a.fds[fd] = {"path": op.path, "flags": args[1] if len(args) > 1 else kw.get("flags", 0), "ino": ino}
            self.fdinfo[fd] = a.fds[fd]
            op.fd = fd
            if opname == "open_c":
                if pre is None:
                    self.fslog.append(("create", op.path, ino, st.st_mode & 0o7777))
                    self.ino_state[ino] = {"synced": None, "dirty": True, "created": True}
                elif (a.fds[fd]["flags"] & os.O_TRUNC) and _stat.S_ISREG(st.st_mode):
                    self._dirty(ino, fd)
        elif name == "close":
            self._drop_fd(a, op.fd)
        elif name in ("write", "ftruncate", "pwrite", "writev", "sendfile", "copy_file_range", "posix_fallocate"):
            ino = a.fds[op.fd]["ino"]
            self._dirty(ino, op.fd)
            if name == "write":
                op.detail = f"{res}/{op.detail}"
        elif name in ("fsync", "fdatasync"):
            ino = a.fds[op.fd]["ino"]
            st = _real["fstat"](op.fd)
            data = _real["pread"](op.fd, st.st_size, 0) if (a.fds[op.fd]["flags"] & os.O_ACCMODE) != os.O_WRONLY else None
            if data is None:
                try:
                    with passthrough():
                        rfd = _real["open"](f"/proc/self/fd/{op.fd}", os.O_RDONLY)
                        try:
                            data = _real["pread"](rfd, st.st_size, 0)
                        finally:
                            _real["close"](rfd)
                except OSError:
                    data = b""
            s = self.ino_state.setdefault(ino, {"synced": None, "dirty": False})
            s["synced"] = data
            s["dirty"] = False
        elif name == "fchmod":
            ino = a.fds[op.fd]["ino"]
            self.fslog.append(("chmod_ino", ino, args[1] if len(args) > 1 else kw.get("mode")))
        elif name == "chmod":
            self.fslog.append(("chmod", op.path, args[1] if len(args) > 1 else kw.get("mode")))
        elif name == "mkdir":
            self.fslog.append(("mkdir", op.path))
        elif name in ("replace", "rename"):
            self.fslog.append(("rename", op.path, op.path2))
        elif name in ("unlink", "remove"):
            self.fslog.append(("unlink", op.path))
        elif name == "rmdir":
            self.fslog.append(("rmdir", op.path))
        elif name == "symlink":
            self.fslog.append(("symlink", op.path, op.path2))
        elif name == "link":
            self.fslog.append(("link", op.path, op.path2))
        elif name == "truncate":
            try:
                st = _real["stat"](op.path)
                self._dirty((st.st_dev, st.st_ino), None)
            except OSError:
                pass

    def _dirty(self, ino, fd):
        s = self.ino_state.get(ino)
        if s is None:
            # a pre-existing inode is being modified in place: remember that its
            # durable content is whatever it held before the first modification
            s = self.ino_state[ino] = {"synced": "INITIAL", "dirty": True}
        s["dirty"] = True

    # ----------------------------------------------------------------- flock seam
    # A lock belongs to an open file description: self.locks[inode] = (actor id, fd).
    @_guard
    def flock(self, a: Actor, fd, operation):
        import fcntl
        if fd not in a.fds:
            if a.dead:
                raise SimKilled()
            return _real["flock"](fd, operation)
        info = a.fds[fd]
        ino = info["ino"]
        op = Op(a.id, a.op_count, "flock", info["path"], None, fd, "UN" if operation & fcntl.LOCK_UN else "EX")
        a.op_count += 1
        me = (a.id, fd)
        if operation & fcntl.LOCK_UN:
            kind, en = self.yield_point(a, op)
            self._lock_directive(a, op, kind, en)
            info.pop("locked", None)
            if self.locks.get(ino) == me:
                del self.locks[ino]
            _real["flock"](fd, operation)
            op.outcome = "ok"
            return None
        nonblocking = bool(operation & fcntl.LOCK_NB)
        while True:
            holder = self.locks.get(ino)
            if holder is None or holder == me:
                kind, en = self.yield_point(a, op)
                self._lock_directive(a, op, kind, en)
                holder = self.locks.get(ino)
                if holder is None or holder == me:
                    break
                continue  # somebody took it while we were parked at the yield point
            if nonblocking:
                kind, en = self.yield_point(a, op)
                self._lock_directive(a, op, kind, en)
                op.outcome = "EWOULDBLOCK"
                raise BlockingIOError(_errno.EWOULDBLOCK, "Resource temporarily unavailable")
            self.probes["flock_blocked"] += 1
            a.blocked_on = ino
            if len(self.actors) == 1 or holder[0] == a.id:
                # blocked on a lock held by another descriptor of the same process: nobody can ever release it
                self.deadlock = True
                self.aborting = self.aborting or "deadlock: process blocked on a lock it holds through another descriptor"
                a.dead = True
                raise SimKilled()
            nxt = self._pick(a)
            if nxt is a:
                a.dead = True
                raise SimKilled()
            nxt.sem.release()
            self._park(a)
            if self.aborting or a.dead:
                a.dead = True
                raise SimKilled()
        self.locks[ino] = me
        info["locked"] = ino
        _real["flock"](fd, operation | fcntl.LOCK_NB)
        op.outcome = "ok"
        return None

    # ------------------------------------------------------------------ jail
    _JAIL_MUTATING = {"mkdir", "rmdir", "replace", "rename", "unlink", "remove", "chmod", "truncate", "symlink", "link", "utime", "open:w"}

    def _jail(self, a: Actor, opname: str, path: str):
        """Code under test must not change anything outside the run's root: such an operation is REFUSED (EACCES) and recorded.
        Nothing lands on the real machine; the check decides whether it is a violation (C17 inert calls, C19 confinement) --
        if it does not claim the record, the run ends as a harness error."""
        if opname not in self._JAIL_MUTATING and not (opname.startswith("open:") and any(c in opname[5:] for c in "wax+")):
            return
        if path in ("/dev/null", "/dev/tty") or path.startswith(("/proc/self/", "/dev/fd/")):
            return
        self.outside_mutations.append((a.id, opname, path))
        raise PermissionError(_errno.EACCES, "simulator jail: write outside the sandbox refused", path)

    # ------------------------------------------------------------------ time seam
    def clock_read(self, a: Actor) -> float:
        self.vtime += 1e-4  # every read makes a little progress, so polling loops terminate
        return self.vtime

    @_guard
    def sleep(self, a: Actor, seconds: float):
        if a.dead:
            raise SimKilled()
        op = Op(a.id, a.op_count, "sleep", None, None, None, round(float(seconds), 6))
        a.op_count += 1
        kind, en = self.yield_point(a, op)
        self._lock_directive(a, op, kind, en)
        self.vtime += max(0.0, float(seconds))
        self.sleeps += 1
        op.outcome = "ok"

    @_guard
    def lockf(self, a: Actor, fd, cmd, length=0, start=0, whence=0):
        import fcntl
        if fd not in a.fds:
            if a.dead:
                raise SimKilled()
            return _real["lockf"](fd, cmd, length, start, whence)
        info = a.fds[fd]
        ino = info["ino"]
        op = Op(a.id, a.op_count, "flock", info["path"], None, fd, "posix-UN" if cmd & fcntl.LOCK_UN else "posix-EX")
        a.op_count += 1
        if cmd & fcntl.LOCK_UN:
            kind, en = self.yield_point(a, op)
            self._lock_directive(a, op, kind, en)
            if self.plocks.get(ino) == a.id:
                del self.plocks[ino]
            op.outcome = "ok"
            return None
        while True:
            holder = self.plocks.get(ino)
            if holder is None or holder == a.id:
                kind, en = self.yield_point(a, op)
                self._lock_directive(a, op, kind, en)
                holder = self.plocks.get(ino)
                if holder is None or holder == a.id:
                    break
                continue
            if cmd & fcntl.LOCK_NB:
                kind, en = self.yield_point(a, op)
                self._lock_directive(a, op, kind, en)
                op.outcome = "EAGAIN"
                raise BlockingIOError(_errno.EAGAIN, "Resource temporarily unavailable")
            self.probes["lockf_blocked"] += 1
            a.blocked_on = ("p", ino)
            if len(self.actors) == 1:
                raise HarnessError("single actor blocked on a POSIX lock nobody else can hold")
            nxt = self._pick(a)
            if nxt is a:
                a.dead = True
                raise SimKilled()
            nxt.sem.release()
            self._park(a)
            if self.aborting or a.dead:
                a.dead = True
                raise SimKilled()
        self.plocks[ino] = a.id
        op.outcome = "ok"
        return None

    def _lock_directive(self, a, op, kind, en=None):
        if kind == "realkill":
            import signal

            os.kill(_real["getpid"](), signal.SIGKILL)
        if self.before_op is not None:
            with passthrough():
                self.before_op(self, a, op, kind)
        if kind in ("kill", "powerloss"):
            self.crash_actor(a, op, kind)
            if self.after_op is not None:
                with passthrough():
                    self.after_op(self, a, op)
            raise SimKilled()
        if kind == "interrupt":
            op.outcome = "interrupt"
            self.crash_op = op
            raise SimInterrupt("interrupt at flock")
        if kind == "errno" and op.name == "flock":
            code = getattr(_errno, en)
            op.outcome = en
            raise OSError(code, os.strerror(code))

    # ------------------------------------------------------------------- logging
    def event_log(self):
        return [op.brief(self.root) for op in self.events]


def _real_getcwd():
    return os.getcwd()


def _real_realpath(p: str) -> str:
    """realpath through the REAL functions (the interposed ones would yield to the scheduler)."""
    _tls.harness = getattr(_tls, "harness", 0) + 1
    try:
        return os.path.realpath(p)
    finally:
        _tls.harness -= 1


class _ShuffledScandir:
    def __init__(self, entries):
        self._it = iter(entries)

    def __iter__(self):
        return self

    def __next__(self):
        return next(self._it)

    @_guard
    def close(self):
        pass

    def __enter__(self):
        return self

    def __exit__(self, *a):
        return False


def _shuffled_dir(sim, name, res):
    if name == "listdir":
        return sim.tape.shuffle(sorted(res), "dirorder")
    entries = sorted(list(res), key=lambda e: e.name)
    try:
        res.close()
    except Exception:
        pass
    return _ShuffledScandir(sim.tape.shuffle(entries, "dirorder"))


# --------------------------------------------------------------------------- #
# SimFile: a file object whose user-space buffer belongs to the simulator
# --------------------------------------------------------------------------- #


class SimFile:
    def __init__(self, sim, actor, fd, mode, encoding, errors, newline, closefd, name, buffering=-1):
        self._sim = sim
        # buffering=0 (binary only) is a RAW file: write() is ONE write(2) whose possibly short count is returned to the caller
        self._raw = buffering == 0 and "b" in mode
        self._actor = actor
        self._fd = fd
        self.mode = mode
        self.name = name
        self._binary = "b" in mode
        self._readable = "r" in mode or "+" in mode
        self._writable = any(c in mode for c in "wax+")
        if not self._binary:
            if encoding in (None, "locale"):
                encoding = locale.getencoding()
            self.encoding = encoding
            self.errors = errors or "strict"
            if newline not in (None, "", "\n", "\r\n", "\r"):
                raise ValueError(f"illegal newline value: {newline!r}")
            self._newline = newline
        self._closefd = closefd
        self._wbuf = bytearray()  # the BufferedWriter level (size: knobs.userbuf)
        self._pending = bytearray()  # the TextIOWrapper level above it (text files only; CPython's chunk size)
        self._detached = False
        self._rdata = None
        self._rpos = 0
        self.closed = False
        self.newlines = None

    # -- helpers
    def _check(self):
        if self._actor.dead:
            raise SimKilled()
        if self._detached:
            raise ValueError("underlying buffer has been detached")
        if self.closed:
            raise ValueError("I/O operation on closed file.")

    def _flush_raw(self):
        if self._pending:
            self._wbuf += self._pending
            self._pending.clear()
        while self._wbuf:
            chunk = bytes(self._wbuf[: self._sim.knobs.wchunk])
            n = os.write(self._fd, chunk)
            del self._wbuf[:n]

    def _fill(self):
        if self._rdata is not None:
            return
        parts = []
        while True:
            b = os.read(self._fd, self._sim.knobs.rchunk)
            if not b:
                break
            parts.append(b)
        raw = b"".join(parts)
        if self._binary:
            self._rdata = raw
        else:
            s = raw.decode(self.encoding, self.errors)
            seen = set()
            if "\r\n" in s:
                seen.add("\r\n")
            rest = s.replace("\r\n", "")
            if "\r" in rest:
                seen.add("\r")
            if "\n" in rest:
                seen.add("\n")
            if self._newline in (None, ""):  # only universal-newline reads record what they saw; CPython's fixed order
                order = [x for x in ("\r", "\n", "\r\n") if x in seen]
                self.newlines = None if not order else (order[0] if len(order) == 1 else tuple(order))
            if self._newline is None:
                s = s.replace("\r\n", "\n").replace("\r", "\n")
            self._rdata = s
        self._rpos = 0

    # -- file API
    def readable(self):
        return self._readable

    def writable(self):
        return self._writable

    def seekable(self):
        return True

    def fileno(self):
        self._check()
        return self._fd

    def isatty(self):
        return False

    @_guard
    def read(self, n=-1):
        self._check()
        if not self._readable:
            raise io.UnsupportedOperation("not readable")
        if self._wbuf or self._pending:
            self._flush_raw()
        if self._raw:
            return self.readall() if n is None or n < 0 else self._read_once(n)
        self._fill()
        if n is None or n < 0:
            out = self._rdata[self._rpos:]
            self._rpos = len(self._rdata)
        else:
            out = self._rdata[self._rpos: self._rpos + n]
            self._rpos += len(out)
        return out

    @_guard
    def readline(self, limit=-1):
        self._check()
        if not self._readable:
            raise io.UnsupportedOperation("not readable")
        self._fill()
        nl = b"\n" if self._binary else "\n"
        i = self._rdata.find(nl, self._rpos)
        end = len(self._rdata) if i < 0 else i + 1
        if limit is not None and limit >= 0:
            end = min(end, self._rpos + limit)
        out = self._rdata[self._rpos: end]
        self._rpos = end
        return out

    def readlines(self, hint=-1):
        return list(self)

    @_guard
    def _read_once(self, n):
        """RAW file: one read(2) (possibly short), as io.FileIO.read(n)."""
        self._check()
        if not self._readable:
            raise io.UnsupportedOperation("not readable")
        return os.read(self._fd, n)

    def readall(self):
        if self._raw:
            parts = []
            while True:
                b = self._read_once(max(self._sim.knobs.rchunk, 1))
                if not b:
                    return b"".join(parts)
                parts.append(b)
        return self.read()

    def read1(self, n=-1):
        if not self._binary:
            raise io.UnsupportedOperation("read1")
        if self._raw:
            return self._read_once(n if n is not None and n >= 0 else max(self._sim.knobs.rchunk, 1))
        return self.read(n)

    def readinto(self, b):
        if not self._binary:
            raise io.UnsupportedOperation("readinto")
        mv = memoryview(b).cast("B")
        data = self._read_once(len(mv)) if self._raw else self.read(len(mv))
        mv[: len(data)] = data
        return len(data)

    readinto1 = readinto

    def peek(self, n=0):
        if not self._binary or self._raw:
            raise io.UnsupportedOperation("peek")
        pos = None
        self.read(0)
        return self._rdata[self._rpos:]

    def __iter__(self):
        return self

    def __next__(self):
        line = self.readline()
        if not line:
            raise StopIteration
        return line

    @_guard
    def write(self, s):
        self._check()
        if not self._writable:
            raise io.UnsupportedOperation("not writable")
        if self._binary:
            if isinstance(s, str):
                raise _ApiTypeError("a bytes-like object is required, not 'str'")
            data = bytes(s)
            n = len(data)
            if self._raw:
                return os.write(self._fd, data)
        else:
            if not isinstance(s, str):
                raise _ApiTypeError(f"write() argument must be str, not {type(s).__name__}")
            if self._newline in ("\r\n", "\r"):
                s_out = s.replace("\n", self._newline)  # as TextIOWrapper: '\n' written by the program becomes the given newline
            else:
                s_out = s
            data = s_out.encode(self.encoding, self.errors)
            n = len(s)
        self._sync_pos_for_write()
        if self._binary:
            self._wbuf += data
        else:
            self._pending += data
            if len(self._pending) > min(8192, self._sim.knobs.userbuf):  # TextIOWrapper hands its pending bytes down in chunks (size is a knob)
                self._wbuf += self._pending
                self._pending.clear()
        if len(self._wbuf) > self._sim.knobs.userbuf:
            self._flush_raw()
        return n

    def _sync_pos_for_write(self):
        """A write after a partial read (modes r+/w+) lands at the LOGICAL position, not where read-ahead left the descriptor."""
        if self._rdata is not None:
            rest = len(self._rdata) - self._rpos
            if rest:
                if not self._binary:
                    raise HarnessError("SimFile: write after a partial text read is not supported")
                os.lseek(self._fd, -rest, 1)
            self._rdata = None

    def writelines(self, lines):
        for ln in lines:
            self.write(ln)

    @_guard
    def flush(self):
        self._check()
        if self._writable:
            self._flush_raw()

    def seek(self, pos, whence=0):
        self._check()
        if self._wbuf or self._pending:
            self._flush_raw()
        if whence == 1 and self._rdata is not None and self._binary:
            pos -= len(self._rdata) - self._rpos  # relative to the logical position
        self._rdata = None
        return os.lseek(self._fd, pos, whence)

    def tell(self):
        self._check()
        if self._wbuf or self._pending:
            self._flush_raw()
        if self._rdata is not None and not self._binary:
            raise HarnessError("SimFile.tell() after text read not supported")
        return os.lseek(self._fd, 0, 1) - (len(self._rdata) - self._rpos if self._rdata is not None else 0)

    def truncate(self, size=None):
        self._check()
        if self._wbuf or self._pending:
            self._flush_raw()
        if size is None:
            size = self.tell()
        os.ftruncate(self._fd, size)
        return size

    def close(self):
        if self._detached:
            raise ValueError("underlying buffer has been detached")
        if self.closed:
            return
        if self._actor.dead:
            self.closed = True
            self._wbuf.clear()
            self._pending.clear()
            raise SimKilled()
        try:
            if self._writable:
                self._flush_raw()
        finally:
            self.closed = True
            self._wbuf.clear()
            self._pending.clear()
            if self._closefd:
                os.close(self._fd)

    def detach(self):
        """As TextIOWrapper.detach()/BufferedIOBase.detach(): hand out the layer below; this object becomes unusable."""
        self._check()
        if self._raw:
            raise io.UnsupportedOperation("detach")
        if self._writable:
            self._flush_raw()
        lower = SimFile(self._sim, self._actor, self._fd, (self.mode.replace("t", "") if "b" in self.mode else self.mode.replace("t", "") + "b"),
                        None, None, None, self._closefd, self.name, 0 if self._binary else -1)
        if self._rdata is not None:
            raise HarnessError("SimFile.detach() after a read is not supported")
        self._detached = True
        self._closefd = False
        return lower

    @property
    def buffer(self):
        """The binary layer under a text file (shares the simulator-owned buffer)."""
        if self._binary:
            raise AttributeError("buffer")
        return _BufferView(self)

    @property
    def raw(self):
        """The raw layer under a buffered binary file: writes through it go straight to write(2)."""
        if not self._binary or self._raw:
            raise AttributeError("raw")
        return _RawView(self)

    @property
    def line_buffering(self):
        return False

    @property
    def write_through(self):
        return False

    def __enter__(self):
        self._check()
        return self

    def __exit__(self, *exc):
        self.close()
        return False

    def __del__(self):
        try:
            if self.closed or self._detached or self._actor.dead or self._actor.done:
                return
            if getattr(_tls, "actor", None) is not self._actor or getattr(_tls, "harness", 0):
                return
            self._sim.probes["simfile_closed_by_gc"] += 1
            self.close()
        except BaseException:
            pass


class _BufferView:
    def __init__(self, f):
        self._f = f

    def write(self, b):
        """Goes to the buffered-writer level directly: text still pending in the TextIOWrapper level comes AFTER it (as in CPython)."""
        f = self._f
        f._check()
        data = bytes(b)
        f._rdata = None
        f._wbuf += data
        if len(f._wbuf) > f._sim.knobs.userbuf:
            self._flush_lower()
        return len(data)

    def _flush_lower(self):
        f = self._f
        while f._wbuf:
            n = os.write(f._fd, bytes(f._wbuf[: f._sim.knobs.wchunk]))
            del f._wbuf[:n]

    def flush(self):
        self._f._check()
        self._flush_lower()

    def fileno(self):
        return self._f.fileno()

    def read(self, n=-1):
        f = self._f
        f._check()
        if f._rdata is not None:
            raise HarnessError("mixing reads of a text SimFile and of its .buffer is not supported")
        if f._wbuf or f._pending:
            f._flush_raw()
        parts, want = [], (None if n is None or n < 0 else n)
        while want is None or want > 0:
            b = os.read(f._fd, f._sim.knobs.rchunk if want is None else min(want, f._sim.knobs.rchunk))
            if not b:
                break
            parts.append(b)
            if want is not None:
                want -= len(b)
        return b"".join(parts)

    read1 = read

    def readinto(self, b):
        mv = memoryview(b).cast("B")
        data = self.read(len(mv))
        mv[: len(data)] = data
        return len(data)

    def readable(self):
        return self._f.readable()

    def writable(self):
        return self._f.writable()

    def seekable(self):
        return True

    def seek(self, pos, whence=0):
        return self._f.seek(pos, whence)

    def tell(self):
        f = self._f
        f._check()
        if f._wbuf or f._pending:
            f._flush_raw()
        return os.lseek(f._fd, 0, 1)

    def close(self):
        self._f.close()

    @property
    def closed(self):
        return self._f.closed

    @property
    def name(self):
        return self._f.name

    @name.setter
    def name(self, v):  # tempfile.NamedTemporaryFile does this
        self._f.name = v

    @property
    def mode(self):
        return self._f.mode.replace("t", "") + ("" if "b" in self._f.mode else "b")

    @property
    def raw(self):
        return _RawView(self._f)


class _RawView:
    """The raw (unbuffered) layer of a buffered SimFile: one write(2)/read(2) per call, the buffer above is flushed first."""

    def __init__(self, f):
        self._f = f

    def write(self, b):
        f = self._f
        f._check()
        f._rdata = None
        return os.write(f._fd, bytes(b))  # what sits in the buffers above is written later, as in CPython

    def read(self, n=-1):
        f = self._f
        f._check()
        if f._rdata is not None:
            raise HarnessError("mixing reads of a buffered SimFile and of its .raw is not supported")
        if n is None or n < 0:
            return self.readall()
        return os.read(f._fd, n)

    def readall(self):
        parts = []
        while True:
            b = os.read(self._f._fd, max(self._f._sim.knobs.rchunk, 1))
            if not b:
                return b"".join(parts)
            parts.append(b)

    def readinto(self, b):
        mv = memoryview(b).cast("B")
        data = self.read(len(mv))
        mv[: len(data)] = data
        return len(data)

    def fileno(self):
        return self._f.fileno()

    def flush(self):
        pass

    def readable(self):
        return self._f.readable()

    def writable(self):
        return self._f.writable()

    def seekable(self):
        return True

    def seek(self, pos, whence=0):
        return self._f.seek(pos, whence)

    def tell(self):
        return os.lseek(self._f._fd, 0, 1)

    def close(self):
        self._f.close()

    @property
    def closed(self):
        return self._f.closed

    @property
    def name(self):
        return self._f.name

    @name.setter
    def name(self, v):
        self._f.name = v

    @property
    def mode(self):
        return self._f.mode


class _FileIOMeta(type):
    def __instancecheck__(cls, obj):
        return isinstance(obj, _real["io.FileIO"]) or (isinstance(obj, SimFile) and obj._raw)

    def __subclasscheck__(cls, sub):
        return issubclass(sub, _real["io.FileIO"])


class SimFileIO(metaclass=_FileIOMeta):
    """io.FileIO as seen by actor threads: a RAW SimFile (the C class would call open(2)/write(2) around the seam)."""

    def __new__(cls, file, mode="r", closefd=True, opener=None):
        if current_actor() is None:
            return _real["io.FileIO"](file, mode, closefd, opener)
        m = mode if "b" in mode else mode + "b"
        return _sim_open(file, m, 0, None, None, None, closefd, opener)


_MODE_FLAGS = {"r": os.O_RDONLY, "w": os.O_WRONLY | os.O_CREAT | os.O_TRUNC,
               "a": os.O_WRONLY | os.O_CREAT | os.O_APPEND, "x": os.O_WRONLY | os.O_CREAT | os.O_EXCL}


def _sim_open(file, mode="r", buffering=-1, encoding=None, errors=None, newline=None, closefd=True, opener=None):
    a = current_actor()
    if a is None:
        return _real["io.open"](file, mode, buffering, encoding, errors, newline, closefd, opener)
    sim = a.sim
    if a.dead:
        raise SimKilled()
    if isinstance(file, int):
        if file in a.fds:
            if buffering == 0 and "b" not in mode:
                raise ValueError("can't have unbuffered text I/O")
            return SimFile(sim, a, file, mode, encoding, errors, newline, closefd, file, buffering)
        return _real["io.open"](file, mode, buffering, encoding, errors, newline, closefd, opener)
    try:
        path = sim.abspath(file)
    except TypeError:
        return _real["io.open"](file, mode, buffering, encoding, errors, newline, closefd, opener)
    if not sim.in_scope(path):
        if sim.record_unscoped:
            sim.unscoped.append((a.id, "open:" + mode, path, None))
        sim._jail(a, "open:" + mode, path)
        return _real["io.open"](file, mode, buffering, encoding, errors, newline, closefd, opener)
    base = [c for c in mode if c in "rwax"]
    if len(base) != 1:
        raise ValueError(f"invalid mode: {mode!r}")
    if buffering == 0 and "b" not in mode:
        raise ValueError("can't have unbuffered text I/O")
    flags = _MODE_FLAGS[base[0]]
    if "+" in mode:
        flags = (flags & ~os.O_ACCMODE) | os.O_RDWR
    flags |= os.O_CLOEXEC
    if opener is not None:
        # as io.open does: the opener obtains the descriptor (it normally calls os.open, which is interposed)
        fd = opener(os.fspath(file), flags)
        if not isinstance(fd, int) or fd < 0:
            raise ValueError(f"opener returned {fd}")
        if fd not in a.fds:
            # descriptor obtained around the seam: fall back to a real file object (the audit hook will object if it mutates)
            return _real["io.open"](fd, mode, buffering, encoding, errors, newline, True)
    else:
        fd = os.open(file, flags, 0o666)  # interposed: a yield point
    try:
        st = _real["fstat"](fd)
        if _stat.S_ISDIR(st.st_mode):
            raise IsADirectoryError(_errno.EISDIR, os.strerror(_errno.EISDIR), os.fspath(file))
    except BaseException:
        try:
            _real["close"](fd)
        finally:
            sim._drop_fd(a, fd)
        raise
    return SimFile(sim, a, fd, mode, encoding, errors, newline, True, os.fspath(file), buffering)


def _make_os_wrapper(name):
    fn = _real[name]

    def wrapper(*args, **kw):
        a = getattr(_tls, "actor", None)
        if a is None or getattr(_tls, "harness", 0):
            return fn(*args, **kw)
        return a.sim.syscall(a, name, args, kw)

    wrapper.__name__ = name
    wrapper.__qualname__ = name
    wrapper.__wrapped__ = fn
    return wrapper


class _NameSeq:
    """Deterministic replacement for tempfile._RandomNameSequence."""

    def __init__(self, real_seq):
        self._real = real_seq

    def __iter__(self):
        return self

    def __next__(self):
        a = current_actor()
        if a is None:
            return next(self._real)
        sim = a.sim
        sim.tmp_counter += 1
        if sim.knobs.tmp_shared:
            # every actor walks the same short sequence: O_EXCL collisions happen
            a.nameseq = (a.nameseq or 0) + 1
            return f"s{a.nameseq:07d}"
        return f"a{a.id}n{sim.tmp_counter:06d}"


def _sim_get_candidate_names():
    return _NAMESEQ


_NAMESEQ = None


def _sim_lockf(fd, cmd, len=0, start=0, whence=0):  # noqa: A002
    a = current_actor()
    if a is None:
        return _real["lockf"](fd, cmd, len, start, whence)
    return a.sim.lockf(a, fd, cmd, len, start, whence)


def _sim_fcntl(fd, cmd, arg=0):
    a = current_actor()
    if a is not None and fd in a.fds:
        import fcntl
        lock_cmds = {getattr(fcntl, n) for n in ("F_SETLK", "F_SETLKW", "F_GETLK", "F_OFD_SETLK", "F_OFD_SETLKW", "F_OFD_GETLK") if hasattr(fcntl, n)}
        if cmd in lock_cmds:
            raise HarnessError("fcntl(F_SETLK...) record locks are not modelled by the simulator: no verdict is possible")
    return _real["fcntl"](fd, cmd, arg)


def _sim_flock(fd, operation):
    a = current_actor()
    if a is None:
        return _real["flock"](fd, operation)
    return a.sim.flock(a, fd, operation)


def _make_entropy_wrappers():
    """os.urandom (hence secrets, uuid4, SystemRandom) and os.getpid are deterministic inside actor threads: names derived from
    them must be the same in a replay and in the real-SIGKILL cross-validation child."""
    import hashlib

    _real["urandom"], _real["getpid"] = os.urandom, os.getpid

    def urandom(n):
        a = current_actor()
        if a is None:
            return _real["urandom"](n)
        sim = a.sim
        out = b""
        while len(out) < n:
            sim.entropy_counter += 1
            out += hashlib.sha256(f"{a.id}:{sim.entropy_counter}".encode()).digest()
        return out[:n]

    def getpid():
        a = current_actor()
        if a is None:
            return _real["getpid"]()
        return 40000 + a.id

    os.urandom, os.getpid = urandom, getpid
    import random as _random_mod

    _real["random._urandom"] = _random_mod._urandom
    _random_mod._urandom = urandom  # SystemRandom / secrets read entropy through this module-level name


def _make_time_wrappers():
    import time as _time

    _real["time.sleep"], _real["time.monotonic"], _real["time.time"], _real["time.perf_counter"] = (
        _time.sleep, _time.monotonic, _time.time, _time.perf_counter)

    def sleep(seconds):
        a = current_actor()
        if a is None:
            return _real["time.sleep"](seconds)
        return a.sim.sleep(a, seconds)

    def monotonic():
        a = current_actor()
        if a is None:
            return _real["time.monotonic"]()
        return a.sim.clock_read(a)

    def perf_counter():
        a = current_actor()
        if a is None:
            return _real["time.perf_counter"]()
        return a.sim.clock_read(a)

    def time_():
        a = current_actor()
        if a is None:
            return _real["time.time"]()
        return 1_700_000_000.0 + a.sim.clock_read(a)

    _time.sleep, _time.monotonic, _time.perf_counter, _time.time = sleep, monotonic, perf_counter, time_


def install():
    """Patch the module attributes once per process; pass-through outside actor threads."""
    global _installed, _NAMESEQ
    if _installed:
        return
    _make_time_wrappers()
    _make_entropy_wrappers()
    for n in _OS_NAMES:
        _real[n] = getattr(os, n)
    _real["io.open"] = io.open
    _real["candidate_names"] = tempfile._get_candidate_names
    for n in _OS_NAMES:
        setattr(os, n, _make_os_wrapper(n))
    builtins.open = _sim_open
    io.open = _sim_open
    _real["io.FileIO"] = io.FileIO
    io.FileIO = SimFileIO
    _NAMESEQ = _NameSeq(_real["candidate_names"]())
    tempfile._get_candidate_names = _sim_get_candidate_names
    try:
        import fcntl
        _real["flock"] = fcntl.flock
        fcntl.flock = _sim_flock
        _real["lockf"] = fcntl.lockf
        fcntl.lockf = _sim_lockf
        _real["fcntl"] = fcntl.fcntl
        fcntl.fcntl = _sim_fcntl
    except ImportError:
        pass
    _installed = True


def uninstall():
    global _installed
    if not _installed:
        return
    for n in _OS_NAMES:
        setattr(os, n, _real[n])
    builtins.open = _real["io.open"]
    io.open = _real["io.open"]
    io.FileIO = _real["io.FileIO"]
    tempfile._get_candidate_names = _real["candidate_names"]
    import time as _time

    _time.sleep, _time.monotonic, _time.time, _time.perf_counter = (
        _real["time.sleep"], _real["time.monotonic"], _real["time.time"], _real["time.perf_counter"])
    os.urandom, os.getpid = _real["urandom"], _real["getpid"]
    import random as _random_mod

    _random_mod._urandom = _real["random._urandom"]
    try:
        import fcntl
        fcntl.flock = _real["flock"]
        fcntl.lockf = _real["lockf"]
        fcntl.fcntl = _real["fcntl"]
    except ImportError:
        pass
    _installed = False


# --------------------------------------------------------------------------- #
# audit hook: independent record + completeness check of the seam
# --------------------------------------------------------------------------- #

_AUDIT_MUTATING = {"os.rename", "os.remove", "os.mkdir", "os.rmdir", "os.chmod", "os.truncate", "os.link",
                   "os.symlink", "os.utime", "os.chown"}
_AUDIT_NAME = {"os.rename": ("rename", "replace"), "os.remove": ("unlink", "remove"), "os.mkdir": ("mkdir",),
               "os.rmdir": ("rmdir",), "os.chmod": ("chmod", "fchmod"), "os.truncate": ("truncate", "ftruncate"),
               "os.link": ("link",), "os.symlink": ("symlink",), "os.utime": ("utime",), "open": ("open",)}


_ACTIVE_SIMS: list = []
FOREIGN_BYPASS: list = []


_SPAWN_EVENTS = {"subprocess.Popen", "os.system", "os.exec", "os.posix_spawn", "os.spawn", "os.fork", "os.forkpty"}


def _audit(event, args):
    a = getattr(_tls, "actor", None)
    if a is not None and not getattr(_tls, "harness", 0) and event in _SPAWN_EVENTS:
        # a child process is outside the simulator: whatever it does to the sandbox is neither scheduled nor recorded
        a.sim.aborting = a.sim.aborting or f"code under test spawned a process ({event}): cannot be simulated, no verdict"
        raise HarnessError(f"code under test spawned a process ({event})")
    if a is None and not getattr(_tls, "harness", 0) and _ACTIVE_SIMS and (event in _AUDIT_MUTATING or event == "open"):
        # a thread that is neither an actor nor the harness' own: code under test moved file work to a helper thread, where
        # the seam cannot see it.  If it touches a sandbox, no verdict of this run can be trusted.
        if threading.current_thread() is not threading.main_thread() and not threading.current_thread().name.startswith("actor-"):
            try:
                p0 = args[0]
                if not isinstance(p0, int):
                    p0 = os.fspath(p0)
                    if isinstance(p0, bytes):
                        p0 = os.fsdecode(p0)
                    for sim_ in _ACTIVE_SIMS:
                        if p0.startswith(sim_.root + "/"):
                            if event != "open" or (len(args) > 2 and isinstance(args[2], int) and args[2] & (os.O_WRONLY | os.O_RDWR | os.O_CREAT)):
                                FOREIGN_BYPASS.append((event, p0, threading.current_thread().name))
            except Exception:  # noqa: BLE001
                pass
        return
    if a is None or getattr(_tls, "harness", 0):
        return
    if event != "open" and event not in _AUDIT_MUTATING and event not in ("os.listdir", "os.scandir"):
        return
    sim = a.sim
    try:
        first = args[0]
        if isinstance(first, int):
            info = a.fds.get(first)
            path = info["path"] if info else None
        else:
            path = sim.abspath(first) if first is not None else None
    except Exception:
        return
    if path is None:
        return
    scoped = sim.in_scope(path)
    if not scoped and event == "os.rename":
        try:
            scoped = sim.in_scope(sim.abspath(args[1]))
        except Exception:
            pass
    if event == "os.symlink":
        try:
            path = sim.abspath(args[1])
            scoped = sim.in_scope(path)
        except Exception:
            pass
    if not scoped:
        return
    if event == "open":
        flags = args[2] if len(args) > 2 and isinstance(args[2], int) else 0
        a.audit.append(("open", path, flags))
    else:
        a.audit.append((event, path, None))
    if event in ("os.listdir", "os.scandir"):
        return
    exp = a.expected_audit
    if exp is None or exp[0] not in _AUDIT_NAME.get(event, ()) or (exp[1] != path and exp[2] != path):
        sim.bypass.append((event, path, exp))


def install_audit():
    global _audit_installed
    if _audit_installed:
        return
    sys.addaudithook(_audit)
    _audit_installed = True
