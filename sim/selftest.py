"""Self-tests of the machinery: determinism proof and sensitivity proof (DESIGN.md 2.8).

  ./check selftest determinism [C16 C17 ...]
  ./check selftest sensitivity [name-or-property ...]
  ./check selftest seeded                      (apply /verif/seeded/*/patch.diff to scratch copies)
"""

from __future__ import annotations

import importlib
import importlib.util
import json
import os
import shutil
import subprocess
import sys
import time

from .common import REPO
from .runner import VERIF

SCRATCH_TOP = "/dev/shm" if os.path.isdir("/dev/shm") else "/var/tmp"


def main(rest, tier, seed) -> int:
    if not rest:
        print("usage: check selftest determinism|sensitivity|seeded|anchors|fileapi [...]")
        return 2
    cmd, args = rest[0], rest[1:]
    if cmd == "determinism":
        return determinism(args, seed)
    if cmd == "sensitivity":
        return sensitivity(args, tier)
    if cmd == "seeded":
        return seeded(args, tier)
    if cmd == "anchors":
        return anchors()
    if cmd == "fileapi":
        from . import fileapi_selftest
        return fileapi_selftest.main()
    print(f"unknown selftest {cmd}")
    return 2


# --------------------------------------------------------------------------- #


def _child_env(extra=None):
    env = dict(os.environ)
    env.pop("COVERAGE_PROCESS_START", None)
    env.pop("COVERAGE_PROCESS_CONFIG", None)
    if extra:
        env.update(extra)
    return env


def determinism(props, seed) -> int:
    """Same seeds twice in-process, in a 1-worker and a 16-worker pool, and in a fresh
    interpreter under another PYTHONHASHSEED: event-log digests must be identical."""
    from .main import CHECKS

    props = props or sorted(CHECKS)
    bad = 0
    for p in props:
        try:
            mod = importlib.import_module(CHECKS[p])
        except ImportError:
            continue
        if not hasattr(mod, "determinism_digests"):
            continue
        n = int(os.environ.get("VERIF_DET_N", "240"))
        t0 = time.time()
        runs = {}
        for label, extra in (("hs0-w1", {"PYTHONHASHSEED": "0", "VERIF_WORKERS": "1"}),
                             ("hs0-w16", {"PYTHONHASHSEED": "0", "VERIF_WORKERS": "16"}),
                             ("hs777-w16", {"PYTHONHASHSEED": "777", "VERIF_WORKERS": "16"}),
                             ("hsrandom-w5", {"PYTHONHASHSEED": "random", "VERIF_WORKERS": "5"})):
            out = subprocess.run([sys.executable, "-c",
                                  f"import sys; sys.path.insert(0, {VERIF!r}); import importlib, json; "
                                  f"m = importlib.import_module({CHECKS[p]!r}); "
                                  f"print('DIGESTS ' + json.dumps(m.determinism_digests({n}, {seed})))"],
                                 capture_output=True, text=True, env=_child_env(extra), cwd=VERIF, timeout=3000)
            line = [ln for ln in out.stdout.splitlines() if ln.startswith("DIGESTS ")]
            if not line:
                print(f"determinism {p} {label}: child failed\n{out.stdout[-1500:]}\n{out.stderr[-1500:]}")
                bad += 1
                continue
            runs[label] = json.loads(line[0][8:])
        labels = sorted(runs)
        if not labels:
            continue
        ref = runs[labels[0]]
        diffs = 0
        for lab in labels[1:]:
            for i, (a, b) in enumerate(zip(ref, runs[lab])):
                if a != b:
                    diffs += 1
                    if diffs <= 5:
                        print(f"  determinism {p}: run {i} differs between {labels[0]} and {lab}: {a} vs {b}")
        print(f"determinism {p}: {len(ref)} seeds x {len(labels)} configurations, {diffs} differing digests, {time.time() - t0:.0f}s")
        bad += diffs
    return 1 if bad else 0


# --------------------------------------------------------------------------- #


def _load_specs():
    spec = importlib.util.spec_from_file_location("mutant_specs", os.path.join(VERIF, "mutants", "specs.py"))
    m = importlib.util.module_from_spec(spec)
    spec.loader.exec_module(m)
    return m.MUTANTS


def make_scratch(name: str) -> str:
    top = os.path.join(SCRATCH_TOP, f"ovmut-{os.getpid()}", name)
    if os.path.isdir(top):
        shutil.rmtree(top)
    os.makedirs(top)
    src = os.path.join(top, "src")
    shutil.copytree(os.path.join(REPO, "src"), src, ignore=shutil.ignore_patterns("__pycache__", "*.pyc"))
    return top


def make_scratch_at(name: str, commit: str) -> str:
    """<top>/src as it was at ``commit`` (for a kept change whose patch no longer applies to the current tree)."""
    top = os.path.join(SCRATCH_TOP, f"ovmut-{os.getpid()}", name)
    if os.path.isdir(top):
        shutil.rmtree(top)
    os.makedirs(top)
    p = subprocess.run(f"git -C {REPO} archive {commit} src | tar -x -C {top}", shell=True, capture_output=True, text=True)
    if p.returncode != 0:
        raise RuntimeError(f"cannot extract {commit}: {p.stderr}")
    return top


def apply_later_fixes(top: str, base_commit: str) -> list:
    """Apply, in order, every commit of /repo after ``base_commit`` that still applies cleanly to <top>/src; returns
    [(sha, subject, applied?)].  A fix that conflicts with the kept change (it rewrote the same lines) is left out as a whole."""
    out = []
    revs = subprocess.run(["git", "-C", REPO, "rev-list", "--reverse", f"{base_commit}..HEAD"], capture_output=True, text=True).stdout.split()
    for sha in revs:
        subj = subprocess.run(["git", "-C", REPO, "log", "-1", "--format=%s", sha], capture_output=True, text=True).stdout.strip()
        diff = subprocess.run(["git", "-C", REPO, "show", "--format=", sha, "--", "src"], capture_output=True, text=True).stdout
        if not diff.strip():
            continue
        dry = subprocess.run(["patch", "-p1", "-s", "--forward", "--dry-run", "-d", top], input=diff, capture_output=True, text=True)
        if dry.returncode == 0:
            subprocess.run(["patch", "-p1", "-s", "--forward", "-d", top], input=diff, capture_output=True, text=True)
            out.append((sha[:7], subj, True))
        else:
            out.append((sha[:7], subj, False))
    return out


def apply_edits(src: str, mutant: dict):
    files = {}
    for e in mutant["edits"]:
        rel = e[2] if len(e) > 2 else mutant["file"]
        path = os.path.join(src, rel)
        text = files.get(path)
        if text is None:
            with open(path, encoding="utf-8") as f:
                text = f.read()
        old, new = e[0], e[1]
        if text.count(old) != 1:
            raise RuntimeError(f"mutant {mutant['name']}: pattern occurs {text.count(old)} times in {rel}")
        files[path] = text.replace(old, new)
    for path, text in files.items():
        with open(path, "w", encoding="utf-8") as f:
            f.write(text)


def run_check_on(src: str, prop: str, tier: str, timeout=1500, extra_env=None):
    env = _child_env({"VERIF_REPO_SRC": src, "PYTHONPATH": src, "VERIF_REPLAY_DIR": os.path.join(os.path.dirname(src), "replays")})
    if extra_env:
        env.update(extra_env)
    t0 = time.time()
    # output goes to files, not pipes: an orphaned grandchild holding a pipe open must not be able to block us; the whole
    # process group is killed afterwards
    import signal
    import tempfile

    with tempfile.TemporaryFile("w+") as fo, tempfile.TemporaryFile("w+") as fe:
        p = subprocess.Popen([sys.executable, os.path.join(VERIF, "check"), prop, "--tier", tier], stdout=fo, stderr=fe, env=env, cwd=VERIF,
                             start_new_session=True)
        try:
            rc = p.wait(timeout=timeout)
        except subprocess.TimeoutExpired:
            rc = 124
        try:
            os.killpg(p.pid, signal.SIGKILL)
        except OSError:
            pass
        p.wait()
        fo.seek(0)
        fe.seek(0)
        out, err = fo.read(), fe.read() + ("\ntimeout" if rc == 124 else "")
    return rc, out, err, time.time() - t0


def anchors() -> int:
    """Only check that every mutant's anchor text still occurs exactly once in the current tree."""
    bad = 0
    top = make_scratch("anchors")
    try:
        for m in _load_specs():
            src = os.path.join(top, "src")
            shutil.rmtree(src)
            shutil.copytree(os.path.join(REPO, "src"), src, ignore=shutil.ignore_patterns("__pycache__", "*.pyc"))
            try:
                apply_edits(src, m)
                subprocess.run([sys.executable, "-m", "py_compile", os.path.join(src, m["edits"][0][2] if len(m["edits"][0]) > 2 else m["file"])],
                               check=True, capture_output=True)
            except Exception as e:  # noqa: BLE001
                bad += 1
                print(f"BROKEN {m['name']}: {str(e)[:200]}")
    finally:
        shutil.rmtree(os.path.join(SCRATCH_TOP, f"ovmut-{os.getpid()}"), ignore_errors=True)
    print(f"anchors: {bad} broken")
    return 1 if bad else 0


def sensitivity(sel, tier) -> int:
    muts = _load_specs()
    if sel:
        muts = [m for m in muts if m["name"] in sel or m["prop"] in sel]
    missed = 0
    rows = []
    for m in muts:
        top = make_scratch(m["name"])
        try:
            try:
                apply_edits(os.path.join(top, "src"), m)
            except RuntimeError as e:
                print(f"{m['name']:42s} {m['prop']}  BROKEN ANCHOR: {e}", flush=True)
                missed += 1
                continue
            rc, out, err, wall = run_check_on(os.path.join(top, "src"), m["prop"], tier)
            caught = rc == 1 and f"VIOLATION property={m['prop']}" in out
            if m.get("expect") == "pass":
                # a behaviour-preserving / property-preserving edit: the check must stay quiet
                quiet = rc == 0 and "VIOLATION" not in out
                print(f"{m['name']:42s} {m['prop']}  {'QUIET (ok)' if quiet else 'FALSE ALARM rc=' + str(rc):12s} {'':60s} {wall:.0f}s", flush=True)
                if not quiet:
                    missed += 1
                    print(out[-1500:])
                    print(err[-800:])
                continue
            clauses = sorted({ln.split("clause=")[1].split()[0] for ln in out.splitlines() if "clause=" in ln})
            rows.append((m["name"], m["prop"], "CAUGHT" if caught else f"MISSED rc={rc}", ",".join(clauses), f"{wall:.0f}s"))
            print(f"{m['name']:42s} {m['prop']}  {'CAUGHT' if caught else 'MISSED rc=' + str(rc):12s} {','.join(clauses)[:60]:60s} {wall:.0f}s",
                  flush=True)
            if not caught:
                missed += 1
                print(out[-1500:])
                print(err[-1500:])
        finally:
            shutil.rmtree(top, ignore_errors=True)
    shutil.rmtree(os.path.join(SCRATCH_TOP, f"ovmut-{os.getpid()}"), ignore_errors=True)
    print(f"sensitivity: {len(muts) - missed}/{len(muts)} mutants caught")
    return 1 if missed else 0


def seeded(sel, tier) -> int:
    """Run the claimed check of every kept seeded change (from sub-agents) on a scratch copy with its patch applied."""
    base = os.path.join(VERIF, "seeded")
    names = sorted(d for d in os.listdir(base) if os.path.isfile(os.path.join(base, d, "patch.diff"))) if os.path.isdir(base) else []
    if sel:
        names = [n for n in names if n in sel]
    missed = 0
    for n in names:
        with open(os.path.join(base, n, "meta.json"), encoding="utf-8") as f:
            meta = json.load(f)
        prop = meta["property"]
        top = make_scratch("seeded-" + n)
        try:
            # patches are relative to the repository root: build <top>/src from /repo/src and apply with -p1 in <top>
            p = subprocess.run(["patch", "-p1", "-s", "-d", top, "-i", os.path.join(base, n, "patch.diff")],
                               capture_output=True, text=True)
            if p.returncode != 0 and meta.get("base_commit"):
                # a later fix: commit touches lines this change rewrites: rebuild from the commit the change was made on, then
                # add the later fixes that still apply (the ones that do not are named; they concern other properties' code
                # only if check_all says so -- see DESIGN.md 11.5)
                shutil.rmtree(top, ignore_errors=True)
                top = make_scratch_at("seeded-" + n, meta["base_commit"])
                p = subprocess.run(["patch", "-p1", "-s", "-d", top, "-i", os.path.join(base, n, "patch.diff")], capture_output=True, text=True)
                fixes = apply_later_fixes(top, meta["base_commit"]) if p.returncode == 0 else []
                print(f"seeded {n}: does not apply to the current tree; using base {meta['base_commit']} + patch + later fixes: "
                      + ", ".join(f"{sha}{'' if ok_ else ' (SKIPPED: conflicts)'}" for sha, _, ok_ in fixes), flush=True)
            if p.returncode != 0:
                print(f"{n}: patch failed: {p.stdout} {p.stderr}")
                missed += 1
                continue
            props = [prop] if meta.get("expect") != "pass" else meta.get("check_all", [prop])
            for prop in props:
                rc, out, err, wall = run_check_on(os.path.join(top, "src"), prop, tier)
                if meta.get("expect") == "pass":
                    quiet = rc == 0 and "VIOLATION" not in out
                    print(f"seeded {n:40s} {prop} {'QUIET (ok)' if quiet else 'FALSE ALARM rc=' + str(rc)} {wall:.0f}s", flush=True)
                    if not quiet:
                        missed += 1
                        print(out[-1500:], err[-800:])
                    continue
                caught = rc == 1 and f"VIOLATION property={prop}" in out
                clauses = sorted({ln.split("clause=", 1)[1].split()[0] for ln in out.splitlines() if ln.strip().startswith("clause=")})
                print(f"seeded {n:40s} {prop} {'CAUGHT' if caught else 'MISSED rc=' + str(rc)} {wall:.0f}s {','.join(clauses)}", flush=True)
                if not caught:
                    missed += 1
                    print(out[-1200:], err[-800:])
        finally:
            shutil.rmtree(top, ignore_errors=True)
    print(f"seeded: {len(names) - missed}/{len(names)} caught")
    return 1 if missed else 0
