"""Real child process for the kill-model cross-validation: runs one C16 scenario under the same interposer and
SIGKILLs itself before the planned operation (fault kind 'realkill')."""

from __future__ import annotations

import json
import os
import sys


def main():
    here = os.path.dirname(os.path.dirname(os.path.abspath(__file__)))
    if here not in sys.path:
        sys.path.insert(0, here)
    job = json.load(sys.stdin)
    from sim import c16, seam
    from sim.common import assert_repo_code
    from sim.tape import Tape

    assert_repo_code()
    seam.install()
    case = job["case"]
    c16._simulate(case, case["faults"], None, Tape(values=[]), root=job["root"])
    print("child survived: the planned operation index was not reached")
    sys.exit(3)


if __name__ == "__main__":
    main()
