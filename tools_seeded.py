#!/venv/bin/python
"""Confirm a sub-agent's seeded change independently and keep it under /verif/seeded/<id>/.

  tools_seeded.py ingest <agent worktree> <id> <property> [--skip-suite]

Confirms, in a FRESH scratch worktree of /repo (outside /repo and /verif, removed afterwards):
  demo passes on the unchanged tree, patch applies, demo fails with the patch, the pinned test suite's stable passes all still pass.
"""
import json, os, shutil, subprocess, sys, tempfile, xml.etree.ElementTree as ET


def sh(cmd, **kw):
    return subprocess.run(cmd, shell=isinstance(cmd, str), capture_output=True, text=True, **kw)


def main():
    _, cmd, wt, sid, prop, *rest = sys.argv
    src = os.path.join(wt, "_seeded")
    for f in ("patch.diff", "demo.py"):
        if not os.path.isfile(os.path.join(src, f)):
            print(f"missing {f} in {src}"); return 2
    scratch = f"/tmp/sv-{sid}"
    sh(f"git -C /repo worktree remove --force {scratch}")
    # --base <commit>: the agent worked on an older commit and a later fix: commit touches the same lines (the self-test then
    # builds <base> + patch + the later fixes that still apply)
    base_rev = rest[rest.index("--base") + 1] if "--base" in rest else "HEAD"
    r = sh(f"git -C /repo worktree add -q --detach {scratch} {base_rev}")
    if r.returncode: print(r.stderr); return 2
    meta = {"id": sid, "property": prop, "source": "independent sub-agent given only the property text and a scratch worktree",
            "base_commit": sh(f"git -C /repo rev-parse --short {base_rev}").stdout.strip(), "ran": []}
    try:
        env = dict(os.environ, PYTHONPATH=os.path.join(scratch, "src")); env.pop("COVERAGE_PROCESS_START", None)
        demo = os.path.join(src, "demo.py")
        a = sh(["/venv/bin/python", demo], env=env, cwd=scratch, timeout=900)
        meta["ran"].append({"cmd": "demo.py on unchanged tree", "exit": a.returncode, "tail": (a.stdout + a.stderr)[-300:]})
        p = sh(f"git -C {scratch} apply {os.path.join(src, 'patch.diff')}")
        if p.returncode: print("patch does not apply:", p.stderr); return 2
        meta["files_changed"] = sh(f"git -C {scratch} diff --stat -- src").stdout.strip().splitlines()
        b = sh(["/venv/bin/python", demo], env=env, cwd=scratch, timeout=900)
        meta["ran"].append({"cmd": "demo.py with patch", "exit": b.returncode, "tail": (b.stdout + b.stderr)[-300:]})
        preserving = "--preserving" in rest
        ok = a.returncode == 0 and ((b.returncode == 0) if preserving else (b.returncode != 0))
        if preserving:
            meta["expect"] = "pass"
            meta["source"] = "independent sub-agent asked for a behaviour-PRESERVING refactor (the property still holds): every check must stay quiet"
        if "--skip-suite" not in rest:
            base = json.load(open("/root/.vp/BASELINE.json"))
            out = os.path.join(tempfile.gettempdir(), f"sv-{sid}.xml")
            t = sh(f"cd {scratch} && /venv/bin/python -m pytest -q -p no:cacheprovider --timeout=900 --continue-on-collection-errors --junitxml={out}",
                   env=env, timeout=3000)
            passed = set()
            for tc in ET.parse(out).getroot().iter("testcase"):
                if not any(ch.tag in ("failure", "error", "skipped") for ch in tc):
                    passed.add(f"{tc.get('classname')}::{tc.get('name')}")
            os.unlink(out)
            missing = sorted(set(base["stable_pass"]) - passed)
            # a scratch worktree has no 'main' branch content for this one test
            missing = [m for m in missing if "test_a9_migration_no_regressions" not in m]
            meta["ran"].append({"cmd": "pinned test suite with patch (PYTHONPATH=<scratch>/src)", "stable_pass_missing": missing[:10],
                                "summary": t.stdout.strip().splitlines()[-1] if t.stdout.strip() else ""})
            ok = ok and not missing
        meta["confirmed"] = ok
        print(json.dumps(meta, indent=1))
        if not ok:
            print("NOT CONFIRMED"); return 1
        dst = os.path.join("/verif/seeded", sid)
        os.makedirs(dst, exist_ok=True)
        for f in ("patch.diff", "demo.py", "NOTES.md"):
            if os.path.isfile(os.path.join(src, f)):
                shutil.copy(os.path.join(src, f), os.path.join(dst, f))
        notes = open(os.path.join(src, "NOTES.md")).read() if os.path.isfile(os.path.join(src, "NOTES.md")) else ""
        meta["needs_to_manifest"] = "see NOTES.md"
        json.dump(meta, open(os.path.join(dst, "meta.json"), "w"), indent=1)
        print("KEPT", dst)
        return 0
    finally:
        sh(f"git -C /repo worktree remove --force {scratch}")
        shutil.rmtree(scratch, ignore_errors=True)


if __name__ == "__main__":
    sys.exit(main())
