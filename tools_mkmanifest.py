import json
props=[json.loads(l) for l in open('/verif/properties.jsonl')]
NA = {
 "C01": "pure function of the text (emit∘parse); no schedule, clock, fault or interleaving for a simulator to own — needs input generation against an oracle, a different technique family; the write-path observation point is covered by C16/C17",
 "C02": "content fidelity is a function of the input text alone (lexer/parser/emitter have no I/O, time or shared state); nothing to schedule or fault",
 "C03": "metamorphic relation between pure outputs for related inputs; no fault or interleaving can affect it",
 "C04": "quoting/escaping agreement between pure functions; exhaustive small-string sweep is the deciding technique, not simulation",
 "C05": "literal-zone passthrough is a function of the text; its write-pipeline clause hands the same pure text to the write path covered by C16",
 "C07": "receipts are a pure function of the text (lexer/parser warning lists)",
 "C08": "constraint verdicts are pure functions of (chain, value)",
 "C09": "verdict invariance under respelling is metamorphic over pure functions",
 "C10": "the 'configurations' are argument flags and schema names, i.e. inputs to straight-line code; no I/O fault is part of the statement",
 "C11": "repair is a pure AST→AST function plus a log",
 "C12": "compiler output is a pure function of the schema; needs a GBNF parser, not a simulator",
 "C13": "grammar/validator containment is a relation between two pure functions; needs derivation from the grammar, not scheduling",
 "C14": "projection is a pure AST→text function",
 "C15": "seal/verify are pure functions of the document; tampering is an input edit, not a storage fault",
 "C18": "each request is a pure function of (file text, request) and a history is its fold; the file-system part (failed and dry calls inert, nothing half-applied) is decided under C16/C17",
 "C20": "totality and error typing are functions of the text; the timing clause is a performance claim, which simulation does not decide",
}
claimed = {}
import sys
which = sys.argv[1:]
TXT = {
 "C16": dict(
   level="fault_enumeration",
   text="Seeded deterministic simulation of the real write path (WriteTool.execute, atomic_write_octave, CLI write/normalize -o/seal -o) over a real tmpfs sandbox with every file operation interposed. Scenarios include unusual targets (directory, hard-linked, read-only, set-id modes, NAME_MAX names), debris of crashed writers, CRLF/BOM/undecodable files and content from a few bytes to 146 KB. For each swept scenario EVERY operation boundary the code reaches is visited as kill, power-loss and async-exception point and with every errno its class admits (one-shot and sticky), then pairs inside the recovery window, then seeded random multi-fault and two-writer runs; after every one-shot errno of the single-fault sweep the same process serves one more healthy write (state a failed call leaves behind in the process). Content includes characters that text layers translate (lone CR, LS/PS, NEL, NUL, BOM), multi-byte characters across every slice boundary and documents whose encoding is exactly at the usual size thresholds. The kill model is cross-validated against real SIGKILLed child processes and the seam against seam-less executions on every run. It is enumeration over the operations the current code performs per scenario plus sampling over scenarios; not a proof.",
   note="Trusted: the interposer sees every file operation (cross-checked by a sys.addaudithook observer on every run), the in-process kill model (self-checked: unwinding changes nothing on disk), and the power-loss durability MODEL (ordered metadata, data durable up to last fsync). MCP server dispatch/transport are not exercised.",
   tech="deterministic simulation: interposed file-operation seam + planned single/pair fault sweep + seeded random fault/schedule search, oracle on disk state from outside",
   ref="3"),
 "C17": dict(
   level="exploration",
   text="Seeded search over (a) sequential histories of write calls and external modifications checked step by step against a register model, (b) interleavings of 2-3 writer processes (real threads parked at every interposed file operation, one baton, schedule from the seed) with the CAS invariant evaluated by the simulator at the instant each os.replace is executed, (c) concurrent/duplicated/reordered tool calls inside one process under a deterministic asyncio loop. In addition two sub-spaces the quantifier names are swept completely: every history over {content, changes, normalize, corrections_only, external modification} x base_hash {none, current, stale, future} up to length 5 in the thorough tier (as far as its time cap reaches; the evidence file says whether the sweep was complete), and over an extended 22-symbol alphabet (plus undecodable content, the digest of the empty text, the current text re-sent, the previous call re-sent) up to length 3 (quick) / 4 (thorough), and every interleaving of 45 writer pairs (9 writer kinds incl. a non-cooperating in-place editor; the two writers name the file by different spellings of its path) plus 15 pairs of creators of a file that does not exist yet, at read/lock/replace granularity (depth-first over the schedule tape). A fault sweep (L1f) repeats one call carrying a mismatching base_hash with every operation it performs failing in turn (every admissible errno; one-shot, sticky, sticky for that operation on that path). Everything else is seeded sampling.",
   note="Trusted: the scheduler is the only source of interleaving (one thread runs at a time), the interposer sees every file operation (audit-hook cross-check), flock is modelled as a blocking point. External programs that do not use the tool are outside the quantifier except as atomic steps of sequential histories.",
   tech="deterministic simulation: baton-scheduled writer processes at file-operation granularity + reference register model + seeded schedule search",
   ref="4"),
 "C19": dict(
   level="exploration",
   text="Generated file-system layouts (symlinks of every kind incl. dangling, chains and loops, secrets outside the sandbox, HOME cache) and generated path strings / schema names / frozen digests / source URIs are fed to the real tools while the storage seam and an independent audit hook record every path actually opened, created, renamed or removed; an independent lexical classifier decides which paths must be refused. Complete enumerations inside the sampling: every path of directory depth <= 1 (quick) / <= 2 (thorough) over the directory and final segments listed in sim/c19.py (36 x 70 at the time of writing: plain, '..', links of every kind incl. loops, names that Unicode folding or a string sanitiser changes, '~'/'$VAR' forms) x {absolute, relative} x 12 call kinds; every schema name over a 13-character alphabet up to length 4 / 5; all ordered pairs of schema look-ups (name x cwd x entry) and of frozen references (reference x entry x cache tampering in between), each sequence served by one forked process since a resolver may keep state; call(P)-change-layout-call(P) sequences. Seeded sampling elsewhere.",
   note="Trusted: seam + audit hook together see every file access of the calling thread; the classifier (lexical walk with lstat) is independent of the code's validators. Races where a component is swapped during the call are out of scope.",
   tech="storage seam as recorder over generated file-system configurations (no schedule or fault dimension: the seam is used as an observer)",
   ref="6"),
 "C06": dict(
   level="exploration",
   text="The same generated calls are executed in a pristine forked interpreter (golden) and under seeded variations of everything the property quantifies over: fresh interpreters with different PYTHONHASHSEED / cwd / locale / TZ, long-lived workers that first served a shuffled history (incl. the same bytes and near-twins of them through other entry points, with the garbage collector disabled / forced), concurrently scheduled asyncio tasks under a deterministic loop, caller threads pre-empted at line granularity by a seeded scheduler, different (simulated) clock values, shuffled directory enumeration order, different user/host/terminal/HOME. Deterministic parts inside the sampling: a fixed battery of order- and state-sensitive calls is served by every fresh interpreter, and all ordered pairs of that battery are executed one pair per process. Oracle: byte equality of the serialised result with timestamps masked.",
   note="Trusted: masking touches only routing_log timestamps and the sandbox root; schema texts are byte-identical across configurations. Locales limited to those installed (C, C.UTF-8, POSIX).",
   tech="deterministic simulation of process configuration, call history, task and thread schedules with a golden-run differential oracle",
   ref="5"),
}
checks=[]
for pid in which:
    t=TXT[pid]
    checks.append({
      "property_id": pid,
      "quick_cmd": f"timeout 900 ./check {pid} --tier quick",
      "thorough_cmd": f"timeout 7200 ./check {pid} --tier thorough",
      "evidence_file": f"/verif/evidence/{pid}.json",
      "replay_cmd_template": f"./check {pid} --replay {{path}}",
      "engine": "sim",
      "level_claimed": {"category": t["level"], "text": t["text"], "design_ref": f"DESIGN.md §{t['ref']}"},
      "level_note": t["note"],
      "technique": t["tech"],
    })
na=[{"property_id":k,"reason":v} for k,v in NA.items()]
PENDING = {}
for k,v in PENDING.items():
    if k not in which: na.append({"property_id":k,"reason":v})
na.sort(key=lambda x:x["property_id"])
m={
 "version":1,
 "setup_cmd":"/venv/bin/python -c \"import octave_mcp, sys; sys.path.insert(0,'/verif'); import sim.seam\" && mkdir -p /verif/evidence",
 "hooks":{"guard":"OCTAVE_MCP_VERIF","enable":"no hook exists in /repo: every seam is installed from /verif by patching module attributes (os.*, builtins.open, io.open, tempfile, fcntl.flock, asyncio loop, sys.settrace); nothing to enable","baseline_off_cmd":"cd /repo && /venv/bin/python -m pytest -ra -q -p no:cacheprovider --timeout=900 --continue-on-collection-errors","source_commits":[],"add_only":True},
 "engines":[{"name":"sim","path":"/verif/sim","serves_properties":which,"kind_free_text":"deterministic simulation with fault injection: seeded choice tape, baton-scheduled actor threads parked at interposed file operations, simulator-owned file buffers, errno/kill/interrupt/power-loss injection, deterministic asyncio loop, line-level thread pre-emption"}],
 "checks":checks,
 "not_applicable":na,
 "notes":"Python 3.12 at /venv/bin/python; code under test is imported from /repo/src (current working tree, editable install) — nothing to build. Exit codes: 0 held, 1 VIOLATION, 2 harness error. known_findings.json lists genuine defects (fixed: entries suppress nothing).",
}
json.dump(m,open('/verif/MANIFEST.json','w'),indent=1,ensure_ascii=False)
