#!/venv/bin/python
"""Run the repository's pinned test command (guard off) and compare with /root/.vp/BASELINE.json stable_pass."""
import json, subprocess, sys, os, tempfile, xml.etree.ElementTree as ET
base = json.load(open("/root/.vp/BASELINE.json"))
out = os.path.join(tempfile.gettempdir(), f"baseline-{os.getpid()}.xml")
cmd = base["cmd"].replace("<file>", out)
env = dict(os.environ); env.pop("OCTAVE_MCP_VERIF", None)
p = subprocess.run(cmd, shell=True, capture_output=True, text=True, env=env)
passed = set()
for tc in ET.parse(out).getroot().iter("testcase"):
    if not any(ch.tag in ("failure", "error", "skipped") for ch in tc):
        passed.add(f"{tc.get('classname')}::{tc.get('name')}")
os.unlink(out)
want = set(base["stable_pass"])
missing = sorted(want - passed)
print(f"stable_pass={len(want)} passed_now={len(passed)} missing={len(missing)}")
for m in missing[:40]: print("  MISSING", m)
print(p.stdout[-600:])
sys.exit(1 if missing else 0)
